#!/venv/bin/python
"""Planted-defect self-test (DESIGN.md section 8): each mutant is a small textual edit of the repository that
still passes the 125 tests; the property's quick check must exit 1 on it. Results -> /verif/seeded/planted_results.json

    sensitivity.py [--only C01,C05] [--tier quick] [--skip-tests]
"""
import argparse
import json
import os
import shutil
import subprocess
import sys
import time

VERIF = os.path.dirname(os.path.dirname(os.path.abspath(__file__)))
PY = "/venv/bin/python"
SCRATCH = "/tmp/sens"
OPT = "src/cm_colors/core/optimisation.py"
CON = "src/cm_colors/core/contrast.py"
CNV = "src/cm_colors/core/conversions.py"
PAR = "src/cm_colors/core/color_parser.py"
COL = "src/cm_colors/core/colors.py"
BULK = "src/cm_colors/core/cm_colors.py"
MET = "src/cm_colors/core/color_metrics.py"
CLI = "src/cm_colors/cli/main.py"
REP = "src/cm_colors/cli/html_report.py"
VIS = "src/cm_colors/core/visualiser.py"
NAM = "src/cm_colors/core/named_colors.py"

# (id, property, file, old, new, note)
MUTANTS = [
    ("P01a", "C01", OPT, "        if large:\n            min_contrast = 4.5\n            target_contrast = 4.5  # Aim a bit higher for buffer", "        if large:\n            min_contrast = 3.0\n            target_contrast = 4.5  # Aim a bit higher for buffer", "premium+large minimum 4.5 -> 3.0"),
    ("P01b", "C01", OPT, "    success = final_contrast >= min_contrast\n    return tuned_rgb, success", "    success = final_contrast >= min(min_contrast, 4.5)\n    return tuned_rgb, success", "strict success capped at AA"),
    ("P02a", "C02", OPT, "    required_contrast_for_check = min_contrast\n", "    required_contrast_for_check = target_contrast\n", "early return compares against the target"),
    ("P02b", "C02", OPT, "            if result_contrast > best_contrast:\n                best_contrast = result_contrast\n                best_candidate = binary_result", "            if result_contrast > 0:\n                best_contrast = result_contrast\n                best_candidate = binary_result", "binary candidate accepted even if worse"),
    ("P03a", "C03", OPT, "        search_up = bg_l < 0.5  # Lighten text on dark bg, darken on light bg\n        if _search_up is not None:\n            search_up = _search_up", "        search_up = bg_l < 0.5  # Lighten text on dark bg, darken on light bg\n        if _search_up is not None:\n            search_up = search_up", "fallback direction never flips"),
    ("P03b", "C03", OPT, "        delta_e_sequence = [\n            0.8,\n            1.0,\n            1.2,\n            1.4,\n            1.6,\n            1.8,\n            2.0,\n            2.1,", "        delta_e_sequence = [\n            2.4,\n            2.4,\n            2.4,\n            2.4,\n            2.4,\n            2.4,\n            2.4,\n            2.4,", "schedule starts at 2.4"),
    ("P04a", "C04", OPT, "            4.0,\n            5.0,\n        ]\n\n    best_candidate = None", "            4.0,\n            5.0,\n            7.0,\n        ]\n\n    best_candidate = None", "default schedule extended to 7.0"),
    ("P04b", "C04", OPT, "            if final_delta_e <= delta_e_threshold:\n                return final_rgb", "            if final_delta_e <= delta_e_threshold * 1.5:\n                return final_rgb", "descent result accepted up to 1.5x tolerance"),
    ("P05a", "C05", CON, "0.7152 * g_linear", "0.7154 * g_linear", "green weight 0.7154"),
    ("P05b", "C05", COL, '        elif level == "AA" or level == "AA Large":\n            return "Readable"', '        elif level == "AA Large":\n            return "Readable"', "AA not mapped to Readable"),
    ("P06a", "C06", CNV, '    return f"hsl({h}, {s*100}%, {l*100}%)"', '    return f"hsl({round(h)}, {round(s*100)}%, {round(l*100)}%)"', "hsl output rounded to whole numbers (1 decimal is an EQUIVALENT mutant: all 2^24 colours still read back exactly, checked exhaustively)"),
    ("P06b", "C06", PAR, '    if format_type == "rgb_tuple":\n        return rgb', '    if format_type == "rgb_tuple":\n        return list(rgb)', "tuple format returns a list"),
    ("P07a", "C07", NAM, None, None, "one keyword value changed (computed at run time)"),
    ("P07b", "C07", PAR, "            return max(0.0, min(255.0, v * 255.0 / 100.0))", "            return max(0.0, min(255.0, v * 256.0 / 100.0))", "percentage scaled by 256"),
    ("P07c", "C07", CNV, "    final_r = int(a * r + (1 - a) * bg_r)", "    final_r = int(a * r + (1 - a) * 255)", "hsla red channel composited over white"),
    ("P08a", "C08", CLI, "                        target_ratio = 7.0 if premium else 4.5", "                        target_ratio = 4.5", "premium target not applied to the classification"),
    ("P08b", "C08", CLI, "                    extract_color_from_decl(bg_decl) if bg_decl else default_bg", "                    extract_color_from_decl(bg_decl) if bg_decl else \"white\"", "--default-bg ignored"),
    ("P09a", "C09", CLI, "            rules = tinycss2.parse_stylesheet(\n                css_content, skip_whitespace=False, skip_comments=False\n            )", "            rules = tinycss2.parse_stylesheet(\n                css_content, skip_whitespace=False, skip_comments=True\n            )", "top-level comments dropped"),
    ("P09b", "C09", CLI, '            output_filename = file_path.stem + "_cm" + file_path.suffix\n            output_path = file_path.parent / output_filename', '            output_filename = file_path.stem + "_cm" + file_path.suffix\n            output_path = Path(output_filename)', "output written to cwd instead of beside the input"),
    ("P10a", "C10", CNV, "    m_prime = L - 0.1055613458 * a - 0.0638541728 * b", "    m_prime = L - 0.1055613458 * a - 0.0639541728 * b", "inverse matrix coefficient wrong in the 4th decimal (a swap in the last two digits is unobservable on 8-bit output)"),
    ("P10b", "C10", CNV, "    r_8bit = max(0, min(255, round(r_srgb * 255)))", "    r_8bit = max(0, min(255, int(r_srgb * 255)))", "round -> int on the red channel"),
    ("P11a", "C11", MET, "    SL = 1 + ((0.015 * pow(L_mean - 50, 2))", "    SL = 1 + ((0.0015 * pow(L_mean - 50, 2))", "SL weight 0.0015"),
    ("P11b", "C11", MET, "    elif abs(h1_prime - h2_prime) > 180 and (h1_prime + h2_prime) < 360:", "    elif abs(h1_prime - h2_prime) > 180 and (h1_prime + h2_prime) <= 300:", "hue-mean branch condition"),
    ("P12a", "C12", BULK, "            new_pair = ColorPair(tuned_color, bg, large)", "            new_pair = ColorPair(tuned_color, bg)", "large not passed to the status pair"),
    ("P12b", "C12", BULK, '            results.append((text, "invalid color"))\n            continue', '            results.append((text, "invalid color"))\n            break', "break on invalid entry"),
    ("P13a", "C13", COL, "            self._rgb = parse_color_to_rgb(self.original, background=bg_rgb)", "            self._rgb = parse_color_to_rgb(self.original)", "background context not forwarded"),
    ("P13b", "C13", CNV, "    r_out = int(round(r * a + r_bg * (1 - a)))", "    r_out = int(round(r * (1 - a) + r_bg * a))", "alpha weights swapped on the red channel"),
    ("P14a", "C14", PAR, "            raise ValueError(\n                f\"Tuple/list color must have length 3 (RGB/HSL) or 4 (RGBA/HSLA). Got length {ln}\"\n            )", "            raise IndexError(\n                f\"Tuple/list color must have length 3 (RGB/HSL) or 4 (RGBA/HSLA). Got length {ln}\"\n            )", "wrong exception type for bad lengths"),
    ("P14b", "C14", COL, '            self._error = str(e)\n            self._parsed = True', '            self._error = ""\n            self._parsed = True', "empty error message"),
    ("P15a", "C15", OPT, "def _strategy_recursive(\n    text_rgb: Tuple[int, int, int],", "import functools\n\n\n@functools.lru_cache(maxsize=None)\ndef _cached_steps(text_rgb):\n    return {}\n\n\ndef _strategy_recursive(\n    text_rgb: Tuple[int, int, int],", "(helper only; real edit below)"),
    ("P15b", "C15", OPT, "def _strategy_recursive(\n    text_rgb: Tuple[int, int, int],\n    bg_rgb: Tuple[int, int, int],\n    large: bool,\n    target_contrast: float,\n    min_contrast: float,\n) -> Tuple[Tuple[int, int, int], bool]:", "def _strategy_recursive(\n    text_rgb: Tuple[int, int, int],\n    bg_rgb: Tuple[int, int, int],\n    large: bool,\n    target_contrast: float,\n    min_contrast: float,\n) -> Tuple[Tuple[int, int, int], bool]:\n    key = (text_rgb, bg_rgb, large)\n    if key not in _RECURSIVE_CACHE:\n        _RECURSIVE_CACHE[key] = _strategy_recursive_uncached(\n            text_rgb, bg_rgb, large, target_contrast, min_contrast\n        )\n    return _RECURSIVE_CACHE[key]\n\n\n_RECURSIVE_CACHE = {}\n\n\ndef _strategy_recursive_uncached(\n    text_rgb: Tuple[int, int, int],\n    bg_rgb: Tuple[int, int, int],\n    large: bool,\n    target_contrast: float,\n    min_contrast: float,\n) -> Tuple[Tuple[int, int, int], bool]:", "default strategy memoised on (text, bg, large), ignoring the very_readable minimum"),
    ("P15c", "C15", OPT, "__racy_scratch__", None, "best-so-far bookkeeping of the multi-phase search moved into a module-level dict (sequentially invisible, racy under threads)"),
    ("P16a", "C16", OPT, "    if rec_success:\n        return rec_rgb, True\n", "    if rec_success and not large:\n        return rec_rgb, True\n", "relaxed mode ignores the recursive result for large text"),
    ("P16b", "C16", OPT, "            target_contrast = (\n                7.0  # Aim a bit higher (AAA) if possible, but AA is the floor\n            )", "            target_contrast = (\n                5.0  # Aim a bit higher (AAA) if possible, but AA is the floor\n            )", "ordinary requests aim at 5.0 instead of 7.0 (kept for the record: it does NOT violate C16 - a success of the very_readable request still implies one of the ordinary request - so a miss is the correct answer)"),
    ("P17a", "C17", OPT, "    accessible_text_str = rgbint_to_string(tuned_rgb)\n", "    accessible_text_str = rgbint_to_string(tuned_rgb)\n    if not success:\n        print(f\"could not reach {min_contrast}\")\n", "stray print on failure"),
    ("P17b", "C17", COL, "            if save_report:\n                # For single pair, generate a quick report", "            if save_report or (show and not success):\n                # For single pair, generate a quick report", "report written when only show was asked (failed pairs)"),
    ("P18a", "C18", CLI, '            if not p.name.endswith("_cm.css"):\n                yield p', '            if not p.name.endswith("_cm.css") or p.name.startswith("x_"):\n                yield p', "some *_cm.css files taken as inputs"),
    ("P18b", "C18", CLI, "            with open(file_path, \"r\", encoding=\"utf-8\") as f:\n                css_content = f.read()", "            with open(file_path, \"r\", encoding=\"utf-8\", errors=\"replace\") as f:\n                css_content = f.read()", "undecodable files processed instead of reported"),
    ("P05c", "C05", CON, "    return 0.2126 * r_linear + 0.7152 * g_linear + 0.0722 * b_linear", "    return 0.2127 * r_linear + 0.7151 * g_linear + 0.0722 * b_linear", "red/green weights off by 1e-4 each (sum still 1)"),
    ("P11c", "C11", MET, "        - 0.20 * math.cos(math.radians(4 * H_mean_prime - 63))", "        - 0.20 * math.cos(math.radians(4 * H_mean_prime - 36))", "T term phase 63 -> 36"),
    ("P13c", "C13", CNV, "    final_g = int(a * g + (1 - a) * bg_g)", "    final_g = int(a * g + (1 - a) * bg_r)", "hsla green channel composited with the background's red"),
    ("P14c", "C14", PAR, "                        raise ValueError(\n                            f\"Unsupported RGB component type: {type(c).__name__}\"\n                        )", "                        raise TypeError(\n                            f\"Unsupported RGB component type: {type(c).__name__}\"\n                        )", "TypeError for unsupported component types in 3-sequences"),
    ("P19a", "C19", REP, '            file_path = html.escape(str(pair["file"]))', '            file_path = str(pair["file"])', "file name not escaped"),
    ("P19b", "C19", VIS, "    bg = html.escape(str(bg))", "    bg = html.escape(str(bg), quote=False)", "quotes not escaped in bg"),
]


def sh(cmd, cwd=None, env=None, timeout=3600):
    p = subprocess.run(cmd, shell=True, cwd=cwd, env=env, capture_output=True, text=True, timeout=timeout)
    return p.returncode, p.stdout + p.stderr


def apply(wt, m):
    mid, prop, rel, old, new, note = m
    path = os.path.join(wt, rel)
    s = open(path, encoding="utf-8").read()
    if mid == "P07a":
        old, new = '"rebeccapurple": "#663399"', '"rebeccapurple": "#663398"'
        if old not in s:
            old, new = "'rebeccapurple': '#663399'", "'rebeccapurple': '#663398'"
    if mid == "P15a":
        return False
    if mid == "P15c":
        a = s.index("def generate_accessible_color(")
        b = s.index("def _strategy_strict(")
        body = s[a:b].replace("best_candidate", "_SCRATCH['cand']").replace("best_contrast", "_SCRATCH['contrast']").replace("best_delta_e", "_SCRATCH['de']")
        open(path, "w", encoding="utf-8").write(s[:a] + "_SCRATCH = {}  # reused between calls\n\n\n" + body + s[b:])
        return True
    if old is None or s.count(old) != 1:
        return False
    open(path, "w", encoding="utf-8").write(s.replace(old, new))
    return True


def main():
    ap = argparse.ArgumentParser()
    ap.add_argument("--only", default="")
    ap.add_argument("--tier", default="quick")
    ap.add_argument("--skip-tests", action="store_true")
    a = ap.parse_args()
    out_path = os.path.join(VERIF, "seeded", "planted_results.json")
    results = json.load(open(out_path)) if os.path.exists(out_path) else {}
    os.makedirs(SCRATCH, exist_ok=True)
    for m in MUTANTS:
        mid, prop, rel, old, new, note = m
        if a.only and prop not in a.only.split(",") and mid not in a.only.split(","):
            continue
        if mid == "P15a":
            continue
        wt = os.path.join(SCRATCH, "pl-" + mid)
        sh(f"git -C /repo worktree remove --force {wt}")
        shutil.rmtree(wt, ignore_errors=True)
        rc, out = sh(f"git -C /repo worktree add --detach {wt} HEAD")
        try:
            if not apply(wt, m):
                print(f"{mid} {prop}: pattern not found (code changed) - skipped")
                results[mid] = {"property": prop, "note": note, "status": "pattern-not-found"}
                continue
            env = dict(os.environ, PYTHONPATH=os.path.join(wt, "src"), PYTHONDONTWRITEBYTECODE="1")
            tests = "skipped"
            if not a.skip_tests:
                rct, outt = sh(f"{PY} -m pytest -q -p no:cacheprovider -x", cwd=wt, env=env, timeout=1800)
                tests = outt.strip().splitlines()[-1] if outt.strip() else ""
                if rct != 0:
                    print(f"{mid} {prop}: existing tests FAIL with this mutant ({tests}) - not a valid planted defect")
                    results[mid] = {"property": prop, "note": note, "status": "killed-by-existing-tests", "tests": tests}
                    continue
            e = dict(os.environ, VERIF_REPO=wt, VERIF_SEED=os.environ.get("VERIF_SEED", "1"))
            t0 = time.time()
            rc, out = sh(f"{PY} {VERIF}/check.py {prop} --tier {a.tier}", cwd=VERIF, env=e, timeout=7200)
            dt = time.time() - t0
            import re

            buckets = sorted(set(re.findall(r"violation \[[^\]]*\] \[([^\]]*)\]", out)))
            status = "caught" if rc == 1 else ("missed" if rc == 0 else "harness-error")
            print(f"{mid} {prop}: {status} in {dt:.0f}s {buckets[:4]}  ({note}; tests: {tests})", flush=True)
            results[mid] = {"property": prop, "note": note, "status": status, "seconds": round(dt, 1), "buckets": buckets, "tests": tests, "tier": a.tier,
                            "repo_head": sh("git -C /repo rev-parse --short HEAD")[1].strip()}
        finally:
            sh(f"git -C /repo worktree remove --force {wt}")
            shutil.rmtree(wt, ignore_errors=True)
        json.dump(results, open(out_path, "w"), indent=1)
    sh("git -C /repo worktree prune")
    missed = [k for k, v in results.items() if v.get("status") == "missed"]
    print("\nmissed:", missed)


if __name__ == "__main__":
    main()
