#!/venv/bin/python
"""Run every registered check (quick or thorough) for one or more seeds and print a table."""
import argparse, json, os, subprocess, sys, time
V = os.path.dirname(os.path.dirname(os.path.abspath(__file__)))
ap = argparse.ArgumentParser()
ap.add_argument("--tier", default="quick")
ap.add_argument("--seeds", default="1")
ap.add_argument("--only", default="")
a = ap.parse_args()
man = json.load(open(os.path.join(V, "MANIFEST.json")))
rows = []
for seed in a.seeds.split(","):
    for c in man["checks"]:
        pid = c["property_id"]
        if a.only and pid not in a.only.split(","):
            continue
        cmd = c["quick_cmd"] if a.tier == "quick" else c["thorough_cmd"]
        env = dict(os.environ, VERIF_SEED=seed, VERIF_TIER=a.tier)
        t0 = time.time()
        p = subprocess.run(cmd, shell=True, cwd=V, env=env, capture_output=True, text=True)
        dt = time.time() - t0
        last = [l for l in p.stdout.splitlines() if l.startswith(f"[{pid}] tier=")]
        viol = [l[:200] for l in p.stdout.splitlines() if l.startswith("VIOLATION") or "violation [" in l]
        known = sum(1 for l in p.stdout.splitlines() if l.startswith("KNOWN-FINDING"))
        print(f"seed={seed} {pid} rc={p.returncode} {dt:6.1f}s known={known} {last[-1] if last else p.stderr[-200:]}", flush=True)
        for v in viol[:4]:
            print("     ", v)
        rows.append((seed, pid, p.returncode, dt))
bad = [r for r in rows if r[2] != 0]
print("\nnon-zero exits:", bad)
