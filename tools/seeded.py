#!/venv/bin/python
"""Seeded-defect bookkeeping.

  seeded.py import <ID> [--from /tmp/wt-out/<ID>]   confirm each mutant of a sub-agent delivery in a scratch
                                                     worktree (tests green with patch, demo fails with / passes
                                                     without) and store it under /verif/seeded/<ID>-<name>/
  seeded.py eval [<dir> ...] [--tier quick] [--props C01,C05]
                                                     apply each stored patch to a scratch worktree of /repo HEAD, run
                                                     the property's check with VERIF_REPO pointing at it, record
                                                     result.json (caught / missed, seconds, buckets); worktree removed
"""
import argparse
import json
import os
import re
import shutil
import subprocess
import sys
import time

VERIF = os.path.dirname(os.path.dirname(os.path.abspath(__file__)))
SEEDED = os.path.join(VERIF, "seeded")
PY = "/venv/bin/python"
SCRATCH = "/tmp/sens"


def sh(cmd, cwd=None, env=None, timeout=3600):
    p = subprocess.run(cmd, shell=True, cwd=cwd, env=env, capture_output=True, text=True, timeout=timeout)
    return p.returncode, p.stdout + p.stderr


def worktree(name):
    path = os.path.join(SCRATCH, name)
    os.makedirs(SCRATCH, exist_ok=True)
    if os.path.exists(path):
        sh(f"git -C /repo worktree remove --force {path}")
        shutil.rmtree(path, ignore_errors=True)
    rc, out = sh(f"git -C /repo worktree add --detach {path} HEAD")
    if rc:
        raise SystemExit(f"worktree add failed: {out}")
    return path


def drop(path):
    sh(f"git -C /repo worktree remove --force {path}")
    shutil.rmtree(path, ignore_errors=True)
    sh("git -C /repo worktree prune")


def apply_patch(wt, patch):
    rc, out = sh(f"git -C {wt} apply --whitespace=nowarn {patch}")
    if rc:
        rc, out = sh(f"git -C {wt} apply --3way --whitespace=nowarn {patch}")
    return rc, out


def env_for(wt):
    e = dict(os.environ)
    e["PYTHONPATH"] = os.path.join(wt, "src")
    e["PYTHONDONTWRITEBYTECODE"] = "1"
    return e


def cmd_import(a):
    src = a.src or f"/tmp/wt-out/{a.id}"
    meta = json.load(open(os.path.join(src, "meta.json")))
    for m in meta["mutants"]:
        name = f"{a.id}-{m['name']}{a.suffix}"
        wt = worktree("imp-" + name)
        try:
            demo = os.path.join(src, m["demo"])
            patch = os.path.join(src, m["patch"])
            rc0, out0 = sh(f"{PY} {demo}", cwd=wt, env=env_for(wt), timeout=900)
            rc, out = apply_patch(wt, patch)
            if rc:
                print(f"{name}: patch does not apply: {out[-300:]}")
                continue
            rct, outt = sh(f"{PY} -m pytest -q -p no:cacheprovider -x", cwd=wt, env=env_for(wt), timeout=1800)
            tail = outt.strip().splitlines()[-1] if outt.strip() else ""
            rc1, out1 = sh(f"{PY} {demo}", cwd=wt, env=env_for(wt), timeout=900)
            ok = rc0 == 0 and rct == 0 and rc1 != 0 and "125 passed" in tail
            print(f"{name}: demo clean rc={rc0}, tests rc={rct} ({tail}), demo mutated rc={rc1} -> {'KEEP' if ok else 'REJECT'}")
            if not ok:
                continue
            d = os.path.join(SEEDED, name)
            os.makedirs(d, exist_ok=True)
            # store the patch as it applies to the current HEAD
            rcd, diff = sh(f"git -C {wt} diff")
            open(os.path.join(d, "patch.diff"), "w").write(diff)
            shutil.copy(demo, os.path.join(d, "demo.py"))
            json.dump({
                "property": a.id, "name": name, "summary": m.get("summary"), "breaks": m.get("breaks"), "needs": m.get("needs"),
                "author": "independent sub-agent given only the property text and a scratch worktree" + (" (round 2: also told which changes had already been tried and asked for harder ones)" if a.suffix else ""),
                "confirmed": {
                    "repo_head": sh("git -C /repo rev-parse --short HEAD")[1].strip(),
                    "demo_on_clean_tree_rc": rc0, "tests_with_patch": tail, "demo_with_patch_rc": rc1,
                    "demo_output_with_patch": out1.strip()[-400:],
                    "ran": ["PYTHONPATH=<wt>/src python demo.py (clean)", "git apply patch.diff", "PYTHONPATH=<wt>/src python -m pytest -q -p no:cacheprovider -x", "PYTHONPATH=<wt>/src python demo.py (mutated)"],
                },
            }, open(os.path.join(d, "meta.json"), "w"), indent=1)
        finally:
            drop(wt)


def cmd_eval(a):
    dirs = a.dirs or sorted(os.listdir(SEEDED))
    rows = []
    for d in dirs:
        d = os.path.basename(d.rstrip("/"))
        full = os.path.join(SEEDED, d)
        if not os.path.exists(os.path.join(full, "patch.diff")):
            continue
        meta = json.load(open(os.path.join(full, "meta.json")))
        props = a.props.split(",") if a.props else [meta["property"]] + ([] if a.own_only else meta.get("also_check", []))
        wt = worktree("ev-" + d)
        try:
            rc, out = apply_patch(wt, os.path.join(full, "patch.diff"))
            if rc:
                print(f"{d}: patch does not apply to HEAD: {out[-200:]}")
                rows.append((d, "n/a", "patch-conflict"))
                continue
            res = {}
            for pid in props:
                if not os.path.exists(os.path.join(VERIF, "checks", pid.lower() + ".py")):
                    continue
                e = dict(os.environ)
                e["VERIF_REPO"] = wt
                e.setdefault("VERIF_SEED", "1")
                t0 = time.time()
                rc, out = sh(f"{PY} {VERIF}/check.py {pid} --tier {a.tier}", cwd=VERIF, env=e, timeout=7200)
                dt = time.time() - t0
                buckets = sorted(set(re.findall(r"violation \[[^\]]*\] \[([^\]]*)\]", out)))
                res[pid] = {"tier": a.tier, "exit": rc, "caught": rc == 1, "seconds": round(dt, 1), "buckets": buckets,
                            "tail": out.strip().splitlines()[-6:]}
                print(f"{d}: {pid} {a.tier}: exit={rc} {'CAUGHT' if rc == 1 else 'MISSED' if rc == 0 else 'HARNESS-ERROR'} in {dt:.0f}s {buckets}")
                rows.append((d, pid, "caught" if rc == 1 else "missed" if rc == 0 else "error"))
            prev = {}
            rp = os.path.join(full, "result.json")
            if os.path.exists(rp):
                prev = json.load(open(rp))
            sd = os.environ.get("VERIF_SEED", "1")
            prev.update({(f"{k}:{a.tier}" if sd == "1" else f"{k}:{a.tier}:seed{sd}"): v for k, v in res.items()})
            prev["verif_commit"] = sh(f"git -C {VERIF} rev-parse --short HEAD")[1].strip()
            json.dump(prev, open(rp, "w"), indent=1)
        finally:
            drop(wt)
    print("\nSUMMARY")
    for r in rows:
        print("  ", *r)


def main():
    ap = argparse.ArgumentParser()
    sub = ap.add_subparsers(dest="cmd", required=True)
    i = sub.add_parser("import")
    i.add_argument("id")
    i.add_argument("--from", dest="src")
    i.add_argument("--suffix", default="")
    e = sub.add_parser("eval")
    e.add_argument("dirs", nargs="*")
    e.add_argument("--tier", default="quick")
    e.add_argument("--props")
    e.add_argument("--own-only", action="store_true")
    a = ap.parse_args()
    {"import": cmd_import, "eval": cmd_eval}[a.cmd](a)


if __name__ == "__main__":
    main()
