#!/bin/sh
# Offline setup: make sure hypothesis is importable by /venv/bin/python and put the optional extras
# (atheris for the C14 fuzz stage, jsonschema for evidence validation) into /verif/.deps.
set -u
cd "$(dirname "$0")/.."
WH=/opt/veriftools/wheels
PY=/venv/bin/python
mkdir -p .deps evidence replays
$PY -c "import hypothesis" 2>/dev/null || $PY -m pip install --no-index --find-links $WH hypothesis >/dev/null 2>&1 \
  || $PY -m pip install --no-index --find-links $WH --target .deps hypothesis >/dev/null 2>&1 || echo "setup: hypothesis could not be installed" >&2
for pkg in jsonschema atheris; do
  PYTHONPATH=.deps $PY -c "import $pkg" 2>/dev/null || $PY -m pip install --no-index --find-links $WH --target .deps $pkg >/dev/null 2>&1 \
    || echo "setup: optional package $pkg not installed (the checks fall back without it)" >&2
done
PYTHONPATH=.deps $PY -c "import hypothesis, tinycss2, click; print('setup ok: hypothesis', hypothesis.__version__)"
