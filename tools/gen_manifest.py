#!/venv/bin/python
"""Regenerate /verif/MANIFEST.json from the table below (only properties whose check module exists
are claimed; the rest are listed under not_applicable with the reason)."""
import json
import os

HERE = os.path.dirname(os.path.dirname(os.path.abspath(__file__)))
PY = "/venv/bin/python"

CHECKS = {
    "C01": dict(cat="exploration", ref="DESIGN.md §5 C01",
        technique="property-based testing (Hypothesis): constructed near-threshold pairs x spellings x settings (optionally after a warm-up call with other settings on the same object) vs independent WCAG + CSS oracles; grey/keyword lattices enumerated",
        text="Generated-input search: thousands of text/background pairs constructed on both sides of each WCAG threshold, in every accepted spelling and all 12 settings, with the success flag compared against an independent WCAG verdict on the returned colour as re-read by an independent CSS parser. Exploration is the right level: the domain (2^48 x 12 x spellings) cannot be enumerated and the optimiser is float search code no solver handles.",
        note="Trusted: O-WCAG and O-CSS oracles (self-tested against published anchors at every run), Hypothesis. Ratios within 1e-9 of a threshold are re-judged in 40-digit decimal."),
    "C02": dict(cat="exploration", ref="DESIGN.md §5 C02",
        technique="property-based testing (Hypothesis): pairs weighted to 'already passes by a hair' / 'just below' / text==bg; identity and contrast-monotonicity oracles",
        text="Generated pairs around each of the four minima; oracle (a) unchanged colour + success when the pair already passes, (b) contrast of the result never below the original's. Exploration over a sample of 2^48 x 12.",
        note="Trusted: O-WCAG, O-CSS. pair.text.rgb is taken as the composited original (its correctness is C13/C07)."),
    "C03": dict(cat="exploration", ref="DESIGN.md §5 C03",
        technique="property-based testing with an independent exhaustive witness scan of the OKLCH lightness line (O-OKLAB, O-DE00, O-WCAG)",
        text="For each generated pair just below a threshold the harness scans the text's own lightness line on a 0.0001 grid (0.00002 in the thorough tier) with its own OKLCH/CIEDE2000/WCAG implementations; where a witness (dE<=1.5, minimum+0.05) exists, make_readable must succeed in all modes within dE 2.0.",
        note="Trusted: the three oracles; a witness lying strictly between grid points is missed (missed obligation, never a false alarm)."),
    "C04": dict(cat="exploration", ref="DESIGN.md §5 C04",
        technique="property-based testing: strict-mode dE cap, direct calls of the search routines with arbitrary tolerances/schedules, and step-chain recording by attribute replacement in the harness process",
        text="Generated pairs (weighted to unfixable ones) for the 5.0 cap; arbitrary arguments for the three search routines; every step of mode 1/2 runs recorded and checked to chain bounded steps from the original colour.",
        note="Trusted: O-DE00 (34 Sharma pairs), +0.01 slack between library and oracle dE."),
    "C05": dict(cat="exploration", ref="DESIGN.md §5 C05",
        technique="exhaustive enumeration (2^24 luminances, 65,536 grey pairs, all colours vs black/white) + Hypothesis pairs + ulp-neighbourhood label tests against O-WCAG",
        text="Luminance is compared with an independent WCAG implementation on all 16,777,216 colours; ratio on finite sub-lattices exhaustively and on generated pairs; labels at every threshold +/- 0,1,2 ulp through all four observation points.",
        note="Trusted: O-WCAG; 0.03928 vs 0.04045 is unobservable on 8-bit input and not distinguished."),
    "C06": dict(cat="exploration", ref="DESIGN.md §5 C06",
        technique="exhaustive enumeration of format_color over 2^24 colours x 4 formats re-read by the library parser and an exact-rational CSS parser; Hypothesis for the input-format -> output-format table",
        text="Every 8-bit colour is formatted in each output format and re-read by both parsers (thorough: all 2^24; quick: boundary lattice + samples); the format mapping is checked on generated pairs covering unchanged/fixed/failed outcomes for every input spelling.",
        note="Trusted: O-CSS exact-rational parser (cross-checked against tinycss2.color3)."),
    "C07": dict(cat="exploration", ref="DESIGN.md §5 C07",
        technique="grammar-based generation of CSS Color 3 strings judged by an exact-rational reference parser; exhaustive hex and keyword enumeration; metamorphic re-spelling; thorough: coverage-guided atheris stage driving the same structured generator (hypothesis fuzz_one_input)",
        text="Strings are generated first and the expected colour computed by O-CSS in exact arithmetic, so 'nearest 8-bit value' is decided exactly; all hex strings and keywords are enumerated.",
        note="Trusted: O-CSS; strings restricted to plain decimal notation as the property states."),
    "C08": dict(cat="exploration", ref="DESIGN.md §5 C08",
        technique="grammar-based stylesheet generation (unique marker selectors) run through the real click command in-process, single files and directory runs; output re-parsed with an independent structural parser (tinycss2 tokenizer + own var() resolver) and judged against the stdout counts, the report cards, the Python API and O-WCAG",
        text="Thousands of generated stylesheets x settings; the counts, the 'Could not tune' list, the report cards and the written _cm.css are cross-checked in the directions the property states.",
        note="Trusted: tinycss2 tokenizer (as an independent reader of the output), O-CSS, O-WCAG, html.parser."),
    "C09": dict(cat="exploration", ref="DESIGN.md §5 C09",
        technique="grammar-based stylesheet generation with carry-through material; structural normal-form comparison (O-SHEET) of output vs input after masking exactly the values the property allows to differ; file-system before/after diff + audit hook; file / directory / '.' / symlink invocation",
        text="Generated stylesheets containing everything the tool must carry through; inputs must be byte-identical afterwards, created paths exactly the documented ones, and the output's normal form equal to the input's except for reported colour values.",
        note="Trusted: tinycss2 tokenizer for deciding that two texts mean the same."),
    "C10": dict(cat="exploration", ref="DESIGN.md §5 C10",
        technique="exhaustive enumeration of all 2^24 colours (forward, round trip, safe variant) against O-OKLAB + grid/Hypothesis differential for the inverse and invalid-input fuzzing of the safe variants",
        text="Forward conversion and round trip are checked on every 8-bit colour in both tiers; the inverse on a dense L x C x H grid and random triples against an independent implementation of Ottosson's definition.",
        note="Trusted: O-OKLAB (validated against CSS Color 4 sample values)."),
    "C11": dict(cat="exploration", ref="DESIGN.md §5 C11",
        technique="exhaustive Lab enumeration over 2^24 colours; CIEDE2000 differential vs an independent Sharma-validated implementation on neighbour, near-neutral, hue-wrap and uniform pairs; the 34 published pairs fed through attribute replacement",
        text="Lab for all colours; dE00 against the 34 published pairs and an independent implementation on millions of constructed pairs; symmetry, sign, zero and no-raise.",
        note="Trusted: O-LAB/O-DE00, self-tested on all 34 Sharma-Wu-Dalal pairs to 1e-4."),
    "C12": dict(cat="exploration", ref="DESIGN.md §5 C12",
        technique="property-based testing: generated lists of valid/invalid 2-/3-element entries; differential vs single-pair API, independent label oracle, permutation and singleton metamorphic relations",
        text="Generated lists with duplicates, permutations and invalid entries; each result compared with the single-pair API and an independent label of the returned colour.",
        note="Trusted: O-WCAG, O-CSS."),
    "C13": dict(cat="exploration", ref="DESIGN.md §5 C13",
        technique="property-based testing: translucent spellings x alpha edge values x backgrounds vs exact rational source-over blend",
        text="Generated (foreground, alpha, background) triples in each translucent spelling; composite within 1.5 of the exact blend, endpoints exact, readability and fixes equal to those of the opaque composite pair.",
        note="Trusted: O-CSS exact arithmetic."),
    "C14": dict(cat="exploration", ref="DESIGN.md §5 C14",
        technique="fuzzing: Hypothesis near-miss CSS / junk sequence generator in both tiers + coverage-guided atheris (libFuzzer) campaign in the thorough tier, oracle inside the target",
        text="Any string or short sequence through Color/ColorPair/bulk: nothing may escape, and the object must be in one of the two documented states.",
        note="Trusted: Hypothesis, atheris; atheris stage skipped (and reported) if the wheel cannot be installed."),
    "C15": dict(cat="exploration", ref="DESIGN.md §5 C15",
        technique="stateful property-based testing (Hypothesis RuleBasedStateMachine) against a reference table computed one operation per fresh interpreter (three hash seeds); threaded runs of a fixed workload behind a barrier with a 10 microsecond switch interval",
        text="Histories of API operations (construct, query, fix, bulk, in-process CLI) with every step compared to the result of the same operation in a brand-new interpreter; thread leg samples interleavings.",
        note="The harness does not own CPython's thread schedule: the concurrency clause is sampled, not enumerated."),
    "C16": dict(cat="exploration", ref="DESIGN.md §5 C16",
        technique="property-based testing: metamorphic relations mode1 => mode2 identical, very_readable success => ordinary success, on pairs weighted to multi-step fixes",
        text="Generated pairs needing several default-mode steps; the two implications are checked directly.",
        note="Trusted: nothing beyond the library's own outputs being compared with each other."),
    "C17": dict(cat="exploration", ref="DESIGN.md §5 C17",
        technique="property-based testing with fd-level output capture, audit hook and scratch working directory; differential show/save_report vs plain call",
        text="Generated pairs in every spelling x outcomes x modes x show x save_report; default path must be silent and write nothing; previews must not raise nor change the result.",
        note="Trusted: sys.addaudithook for file writes; fd-level capture for output."),
    "C18": dict(cat="fault_enumeration", ref="DESIGN.md §5 C18",
        technique="generated directory trees with every placement of each fault kind enumerated; differential directory-run vs single-file-run, and repeated runs",
        text="Fault placements (non-UTF-8, directory/dangling link named *.css, unserialisable CSS, empty file) are enumerated over generated trees; outputs must be byte-identical to single-file runs and stable under repetition.",
        note="Trusted: the file system of the sandbox; traversal order is whatever rglob yields here."),
    "C19": dict(cat="exploration", ref="DESIGN.md §5 C19",
        technique="property-based testing / fuzzing with a markup-rich payload generator; structural oracle via html.parser skeleton comparison",
        text="Payloads in every user-controlled slot of both report generators, directly and end-to-end; the report must parse to the same skeleton as for benign text and show the payload verbatim.",
        note="Trusted: html.parser as the HTML reader."),
}


def main():
    checks = []
    na = []
    for pid in sorted(CHECKS):
        c = CHECKS[pid]
        if not os.path.exists(os.path.join(HERE, "checks", pid.lower() + ".py")):
            na.append({"property_id": pid, "reason": "check not built yet in this revision (planned, see DESIGN.md)"})
            continue
        checks.append({
            "property_id": pid,
            "quick_cmd": f"{PY} check.py {pid} --tier quick",
            "thorough_cmd": f"{PY} check.py {pid} --tier thorough",
            "evidence_file": f"/verif/evidence/{pid}.json",
            "replay_cmd_template": f"{PY} check.py {pid} --replay {{path}}",
            "engine": "pbt",
            "level_claimed": {"category": c["cat"], "text": c["text"], "design_ref": c["ref"]},
            "level_note": c["note"],
            "technique": c["technique"],
        })
    man = {
        "version": 1,
        "setup_cmd": "sh tools/setup.sh",
        "hooks": {
            "guard": "CM_COLORS_VERIF",
            "enable": "no source hooks: checks import /repo/src directly; observation by return values, files, streams and attribute replacement inside the harness process",
            "baseline_off_cmd": "cd /repo && /venv/bin/python -m pytest -q -p no:cacheprovider",
            "source_commits": [],
            "add_only": True,
        },
        "engines": [{
            "name": "pbt",
            "path": "/verif/check.py",
            "serves_properties": [c["property_id"] for c in checks],
            "kind_free_text": "Hypothesis campaigns sharded over 16 processes, exhaustive enumerations of finite domains, atheris fuzzing; independent oracles in vlib/oracles",
        }],
        "checks": checks,
        "notes": "All checks: exit 0 held / 1 VIOLATION line / 2 harness error. VERIF_SEED seeds every campaign; VERIF_REPO (default /repo) selects the tree under test.",
        "not_applicable": na,
    }
    with open(os.path.join(HERE, "MANIFEST.json"), "w") as f:
        json.dump(man, f, indent=1)
    print(f"MANIFEST.json: {len(checks)} checks, {len(na)} not applicable")


if __name__ == "__main__":
    main()
