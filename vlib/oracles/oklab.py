"""O-OKLAB: sRGB <-> OKLab / OKLCH from Björn Ottosson's published matrices (2020-12 version), with
per-channel clipping of linear sRGB and round-half-even to 8 bits for the inverse. Imports nothing
from cm_colors."""
import math

from vlib.runner import HarnessError


def _lin(c):
    return c / 12.92 if c <= 0.04045 else ((c + 0.055) / 1.055) ** 2.4


def _gam(c):
    return 12.92 * c if c <= 0.0031308 else 1.055 * c ** (1.0 / 2.4) - 0.055


_LIN = [_lin(i / 255.0) for i in range(256)]


def _cbrt(x):
    return math.copysign(abs(x) ** (1.0 / 3.0), x)


def rgb_to_oklab(rgb):
    r, g, b = _LIN[rgb[0]], _LIN[rgb[1]], _LIN[rgb[2]]
    l = 0.4122214708 * r + 0.5363325363 * g + 0.0514459929 * b
    m = 0.2119034982 * r + 0.6806995451 * g + 0.1073969566 * b
    s = 0.0883024619 * r + 0.2817188376 * g + 0.6299787005 * b
    l_, m_, s_ = _cbrt(l), _cbrt(m), _cbrt(s)
    return (
        0.2104542553 * l_ + 0.7936177850 * m_ - 0.0040720468 * s_,
        1.9779984951 * l_ - 2.4285922050 * m_ + 0.4505937099 * s_,
        0.0259040371 * l_ + 0.7827717662 * m_ - 0.8086757660 * s_,
    )


def rgb_to_oklch(rgb):
    L, a, b = rgb_to_oklab(rgb)
    C = math.hypot(a, b)
    H = math.degrees(math.atan2(b, a)) % 360.0
    return (L, C, H)


def oklab_to_linear(L, a, b):
    l_ = L + 0.3963377774 * a + 0.2158037573 * b
    m_ = L - 0.1055613458 * a - 0.0638541728 * b
    s_ = L - 0.0894841775 * a - 1.2914855480 * b
    l, m, s = l_**3, m_**3, s_**3
    return (
        +4.0767416621 * l - 3.3077115913 * m + 0.2309699292 * s,
        -1.2684380046 * l + 2.6097574011 * m - 0.3413193965 * s,
        -0.0041960863 * l - 0.7034186147 * m + 1.7076147010 * s,
    )


def oklch_to_rgb_pre(L, C, H):
    """Pre-rounding 8-bit-scale channel values (floats in [0,255]) after per-channel clipping."""
    h = math.radians(H)
    lin = oklab_to_linear(L, C * math.cos(h), C * math.sin(h))
    return tuple(255.0 * _gam(min(1.0, max(0.0, c))) for c in lin)


def oklch_to_rgb(L, C, H):
    return tuple(int(round(v)) for v in oklch_to_rgb_pre(L, C, H))


def selftest():
    L, a, b = rgb_to_oklab((255, 255, 255))
    if abs(L - 1.0) > 1e-7 or abs(a) > 1e-7 or abs(b) > 1e-7:
        raise HarnessError(f"O-OKLAB: white -> {(L, a, b)}")
    if rgb_to_oklab((0, 0, 0)) != (0.0, 0.0, 0.0):
        raise HarnessError("O-OKLAB: black")
    # CSS Color 4 sample values (oklch of sRGB primaries and #008000)
    anchors = {
        (255, 0, 0): (0.627955, 0.257683, 29.2339),
        (0, 255, 0): (0.866440, 0.294827, 142.4953),
        (0, 0, 255): (0.452014, 0.313214, 264.052),
        (0, 128, 0): (0.519752, 0.176858, 142.4953),
    }
    for rgb, want in anchors.items():
        got = rgb_to_oklch(rgb)
        if abs(got[0] - want[0]) > 5e-4 or abs(got[1] - want[1]) > 5e-4 or abs(got[2] - want[2]) > 0.05:
            raise HarnessError(f"O-OKLAB anchor {rgb}: {got} != {want}")
    # forward/inverse consistency of the typed matrices (before rounding), on a lattice
    for r in range(0, 256, 51):
        for g in range(0, 256, 51):
            for bb in range(0, 256, 51):
                L, C, H = rgb_to_oklch((r, g, bb))
                pre = oklch_to_rgb_pre(L, C, H)
                if max(abs(pre[0] - r), abs(pre[1] - g), abs(pre[2] - bb)) > 0.01:
                    raise HarnessError(f"O-OKLAB: matrices not mutually inverse at {(r, g, bb)}: {pre}")
