"""O-CSS: reference parser for CSS Color Level 3 <color> values with exact rational arithmetic.

parse(s) -> ("rgb", (Fraction r, g, b) on the 0..255 scale, Fraction alpha)  or raises CssReject.
Channel values are exact rationals, so "nearest 8-bit value" is decided exactly: a library result v
is accepted iff |v - exact| <= 1/2 (+1e-9); ties accept both neighbours.
Imports nothing from cm_colors."""
import re
from fractions import Fraction as F

from vlib.runner import HarnessError


class CssReject(Exception):
    pass


# 147 CSS Color 3 keywords + rebeccapurple (typed by hand; cross-checked against tinycss2 at self-test)
KEYWORDS = {
    "aliceblue": "f0f8ff", "antiquewhite": "faebd7", "aqua": "00ffff", "aquamarine": "7fffd4",
    "azure": "f0ffff", "beige": "f5f5dc", "bisque": "ffe4c4", "black": "000000",
    "blanchedalmond": "ffebcd", "blue": "0000ff", "blueviolet": "8a2be2", "brown": "a52a2a",
    "burlywood": "deb887", "cadetblue": "5f9ea0", "chartreuse": "7fff00", "chocolate": "d2691e",
    "coral": "ff7f50", "cornflowerblue": "6495ed", "cornsilk": "fff8dc", "crimson": "dc143c",
    "cyan": "00ffff", "darkblue": "00008b", "darkcyan": "008b8b", "darkgoldenrod": "b8860b",
    "darkgray": "a9a9a9", "darkgreen": "006400", "darkgrey": "a9a9a9", "darkkhaki": "bdb76b",
    "darkmagenta": "8b008b", "darkolivegreen": "556b2f", "darkorange": "ff8c00", "darkorchid": "9932cc",
    "darkred": "8b0000", "darksalmon": "e9967a", "darkseagreen": "8fbc8f", "darkslateblue": "483d8b",
    "darkslategray": "2f4f4f", "darkslategrey": "2f4f4f", "darkturquoise": "00ced1", "darkviolet": "9400d3",
    "deeppink": "ff1493", "deepskyblue": "00bfff", "dimgray": "696969", "dimgrey": "696969",
    "dodgerblue": "1e90ff", "firebrick": "b22222", "floralwhite": "fffaf0", "forestgreen": "228b22",
    "fuchsia": "ff00ff", "gainsboro": "dcdcdc", "ghostwhite": "f8f8ff", "gold": "ffd700",
    "goldenrod": "daa520", "gray": "808080", "green": "008000", "greenyellow": "adff2f",
    "grey": "808080", "honeydew": "f0fff0", "hotpink": "ff69b4", "indianred": "cd5c5c",
    "indigo": "4b0082", "ivory": "fffff0", "khaki": "f0e68c", "lavender": "e6e6fa",
    "lavenderblush": "fff0f5", "lawngreen": "7cfc00", "lemonchiffon": "fffacd", "lightblue": "add8e6",
    "lightcoral": "f08080", "lightcyan": "e0ffff", "lightgoldenrodyellow": "fafad2", "lightgray": "d3d3d3",
    "lightgreen": "90ee90", "lightgrey": "d3d3d3", "lightpink": "ffb6c1", "lightsalmon": "ffa07a",
    "lightseagreen": "20b2aa", "lightskyblue": "87cefa", "lightslategray": "778899", "lightslategrey": "778899",
    "lightsteelblue": "b0c4de", "lightyellow": "ffffe0", "lime": "00ff00", "limegreen": "32cd32",
    "linen": "faf0e6", "magenta": "ff00ff", "maroon": "800000", "mediumaquamarine": "66cdaa",
    "mediumblue": "0000cd", "mediumorchid": "ba55d3", "mediumpurple": "9370db", "mediumseagreen": "3cb371",
    "mediumslateblue": "7b68ee", "mediumspringgreen": "00fa9a", "mediumturquoise": "48d1cc", "mediumvioletred": "c71585",
    "midnightblue": "191970", "mintcream": "f5fffa", "mistyrose": "ffe4e1", "moccasin": "ffe4b5",
    "navajowhite": "ffdead", "navy": "000080", "oldlace": "fdf5e6", "olive": "808000",
    "olivedrab": "6b8e23", "orange": "ffa500", "orangered": "ff4500", "orchid": "da70d6",
    "palegoldenrod": "eee8aa", "palegreen": "98fb98", "paleturquoise": "afeeee", "palevioletred": "db7093",
    "papayawhip": "ffefd5", "peachpuff": "ffdab9", "peru": "cd853f", "pink": "ffc0cb",
    "plum": "dda0dd", "powderblue": "b0e0e6", "purple": "800080", "rebeccapurple": "663399",
    "red": "ff0000", "rosybrown": "bc8f8f", "royalblue": "4169e1", "saddlebrown": "8b4513",
    "salmon": "fa8072", "sandybrown": "f4a460", "seagreen": "2e8b57", "seashell": "fff5ee",
    "sienna": "a0522d", "silver": "c0c0c0", "skyblue": "87ceeb", "slateblue": "6a5acd",
    "slategray": "708090", "slategrey": "708090", "snow": "fffafa", "springgreen": "00ff7f",
    "steelblue": "4682b4", "tan": "d2b48c", "teal": "008080", "thistle": "d8bfd8",
    "tomato": "ff6347", "turquoise": "40e0d0", "violet": "ee82ee", "wheat": "f5deb3",
    "white": "ffffff", "whitesmoke": "f5f5f5", "yellow": "ffff00", "yellowgreen": "9acd32",
}

KEYWORD_RGB = {k: (int(v[0:2], 16), int(v[2:4], 16), int(v[4:6], 16)) for k, v in KEYWORDS.items()}

_WS = " \t\n\r\f"
_NUM = r"[+-]?(?:\d+\.\d+|\.\d+|\d+)(?:[eE][+-]?\d+)?"
_NUM_RE = re.compile(_NUM)


def _num(tok: str) -> F:
    m = re.fullmatch(_NUM, tok)
    if not m:
        raise CssReject(f"not a number: {tok!r}")
    return F(tok)


def _clamp(v, lo, hi):
    return lo if v < lo else hi if v > hi else v


def hsl_to_rgb_exact(h: F, s: F, l: F):
    """CSS Color 3 section 4.2.4 algorithm in exact arithmetic; h in degrees (any), s,l in [0,1].
    Returns channel values on the 0..255 scale (Fractions)."""
    h = (h % 360) / 360
    m2 = l * (s + 1) if l <= F(1, 2) else l + s - l * s
    m1 = l * 2 - m2

    def hue(hh):
        if hh < 0:
            hh += 1
        if hh > 1:
            hh -= 1
        if hh * 6 < 1:
            return m1 + (m2 - m1) * hh * 6
        if hh * 2 < 1:
            return m2
        if hh * 3 < 2:
            return m1 + (m2 - m1) * (F(2, 3) - hh) * 6
        return m1

    return tuple(255 * c for c in (hue(h + F(1, 3)), hue(h), hue(h - F(1, 3))))


class OutOfRange(CssReject):
    """valid CSS, but a component lies outside its nominal range (CSS clamps it; the properties only speak of in-range values)"""


def parse(s: str, inrange_only: bool = False, plain_decimal_only: bool = False):
    """-> (r, g, b, alpha) exact (Fractions; channels on the 0..255 scale, clamped as CSS prescribes).
    inrange_only: raise OutOfRange instead of clamping; plain_decimal_only: reject numbers written with an exponent."""
    if not isinstance(s, str):
        raise CssReject("not a string")
    if plain_decimal_only and re.search(r"\d[eE][+-]?\d", s):
        raise CssReject("exponent notation")
    if inrange_only:
        r, g, b, a = parse(s)
        t = s.strip(_WS).lower()
        m = re.fullmatch(r"(rgba?|hsla?)\(([^()]*)\)", t, re.S)
        if m:
            args = [x.strip(_WS) for x in m.group(2).split(",")]
            fn = m.group(1)
            if len(args) == 4 and not (0 <= _num(args[3]) <= 1):
                raise OutOfRange("alpha")
            if fn.startswith("rgb"):
                for x in args[:3]:
                    v = _num(x[:-1]) if x.endswith("%") else _num(x)
                    if not (0 <= v <= (100 if x.endswith("%") else 255)):
                        raise OutOfRange("rgb component")
            else:
                for x in args[1:3]:
                    if not (0 <= _num(x[:-1]) <= 100):
                        raise OutOfRange("hsl percentage")
        return (r, g, b, a)
    t = s.strip(_WS)
    low = t.lower()
    if low in KEYWORD_RGB:
        r, g, b = KEYWORD_RGB[low]
        return (F(r), F(g), F(b), F(1))
    if low.startswith("#"):
        hx = low[1:]
        if len(hx) == 3 and all(c in "0123456789abcdef" for c in hx):
            return tuple(F(int(c * 2, 16)) for c in hx) + (F(1),)
        if len(hx) == 6 and all(c in "0123456789abcdef" for c in hx):
            return (F(int(hx[0:2], 16)), F(int(hx[2:4], 16)), F(int(hx[4:6], 16)), F(1))
        raise CssReject(f"bad hex {s!r}")
    m = re.fullmatch(r"(rgba?|hsla?)\(([^()]*)\)", low, re.S)
    if not m:
        raise CssReject(f"not a CSS3 colour: {s!r}")
    fn, body = m.group(1), m.group(2)
    args = [a.strip(_WS) for a in body.split(",")]
    want = 4 if fn.endswith("a") else 3
    if len(args) != want:
        raise CssReject(f"{fn}() takes {want} arguments: {s!r}")
    alpha = F(1)
    if want == 4:
        alpha = _clamp(_num(args[3]), F(0), F(1))
    if fn.startswith("rgb"):
        pct = [a.endswith("%") for a in args[:3]]
        if any(pct) and not all(pct):
            raise CssReject("mixed rgb() argument kinds")
        ch = []
        for a in args[:3]:
            if a.endswith("%"):
                v = _num(a[:-1]) * 255 / 100
            else:
                v = _num(a)
                if v.denominator != 1:
                    raise CssReject("CSS3 rgb() numbers are integers")
            ch.append(_clamp(v, F(0), F(255)))
        return (ch[0], ch[1], ch[2], alpha)
    # hsl
    if args[0].endswith("%") or not args[1].endswith("%") or not args[2].endswith("%"):
        raise CssReject("hsl() argument kinds")
    h = _num(args[0])
    sat = _clamp(_num(args[1][:-1]) / 100, F(0), F(1))
    lig = _clamp(_num(args[2][:-1]) / 100, F(0), F(1))
    r, g, b = hsl_to_rgb_exact(h, sat, lig)
    return (r, g, b, alpha)


def composite(fg4, bg3):
    """Exact source-over blend of (r,g,b,alpha) over an opaque background."""
    r, g, b, a = fg4
    return tuple(a * c + (1 - a) * F(k) for c, k in zip((r, g, b), bg3))


def nearest_ok(v: int, exact: F, tol: F = F(1, 2)) -> bool:
    return abs(F(v) - exact) <= tol + F(1, 10**9)


def read_rgb(s):
    """Read an opaque CSS colour (or an int 3-tuple/list) as the 8-bit colour a CSS consumer sees.
    Returns a set of acceptable 8-bit triples when a channel sits exactly on a rounding tie,
    otherwise a single triple; for convenience returns (triple, exact?)."""
    if isinstance(s, (tuple, list)):
        if len(s) == 3 and all(isinstance(v, int) and not isinstance(v, bool) and 0 <= v <= 255 for v in s):
            return tuple(s)
        raise CssReject(f"not an 8-bit triple: {s!r}")
    r, g, b, a = parse(s)
    if a != 1:
        raise CssReject("translucent")
    out = []
    for c in (r, g, b):
        fl = c.numerator // c.denominator
        frac = c - fl
        if frac == F(1, 2):
            # tie: CSS does not fix the direction; use round-half-up and let callers that care
            # use read_rgb_set
            out.append(fl + 1)
        else:
            out.append(fl + (1 if frac > F(1, 2) else 0))
    return tuple(out)


def read_rgb_set(s):
    """All 8-bit triples a conforming consumer may see (ties give both neighbours)."""
    if isinstance(s, (tuple, list)):
        return {read_rgb(s)}
    r, g, b, a = parse(s)
    if a != 1:
        raise CssReject("translucent")
    opts = []
    for c in (r, g, b):
        fl = c.numerator // c.denominator
        frac = c - fl
        if frac == F(1, 2):
            opts.append((fl, fl + 1))
        else:
            opts.append((fl + (1 if frac > F(1, 2) else 0),))
    return {(x, y, z) for x in opts[0] for y in opts[1] for z in opts[2]}


def rgb_to_hsl_exact(rgb):
    """Exact rational RGB -> (h degrees, s, l) in [0,360) x [0,1] x [0,1]."""
    r, g, b = (F(c, 255) for c in rgb)
    mx, mn = max(r, g, b), min(r, g, b)
    l = (mx + mn) / 2
    d = mx - mn
    if d == 0:
        return (F(0), F(0), l)
    s = d / (1 - abs(2 * l - 1))
    if mx == r:
        h = ((g - b) / d) % 6
    elif mx == g:
        h = (b - r) / d + 2
    else:
        h = (r - g) / d + 4
    return (h * 60, s, l)


def selftest():
    if len(KEYWORDS) != 148:
        raise HarnessError(f"O-CSS: keyword table has {len(KEYWORDS)} entries")
    try:
        from tinycss2 import color3, color4  # third-party cross-check of the hand-typed table
    except Exception as e:  # pragma: no cover
        raise HarnessError(f"tinycss2 not importable: {e}")
    for k, rgb in KEYWORD_RGB.items():
        c = color3.parse_color(k) or color4.parse_color(k)
        if c is None:
            raise HarnessError(f"O-CSS: tinycss2 does not know keyword {k}")
        got = tuple(round(float(v) * 255) for v in (c.red, c.green, c.blue)) if hasattr(c, "red") else tuple(
            round(float(v) * 255) for v in c.to("srgb").coordinates
        )
        if got != rgb:
            raise HarnessError(f"O-CSS: keyword {k}: mine {rgb} tinycss2 {got}")
    # differential: tinycss2.color3 float parse vs the rational parse, deterministic sample
    samples = [
        "rgb(10, 20, 30)", "rgb( 100% , 0% , 50% )", "rgb(12.5%, 33.333%, 99.9%)", "hsl(0, 100%, 50%)",
        "hsl(120, 100%, 25%)", "hsl(-120, 50%, 50%)", "hsl(480.5, 37.5%, 62.25%)", "hsl(359.99, 1%, 99%)",
        "HSL(720,0%,50%)", "hsla(210, 65%, 13%, 0.25)", "rgba(1,2,3,.5)", "#aBc", "#A1b2C3", "hsl(+30.5, +20%, 80%)",
        "rgb(+7,255,0)", "hsl(1e2, 50%, 50%)", "hsl(.5, 100%, 50%)",
    ]
    for i in range(0, 360, 7):
        samples.append(f"hsl({i * 3 - 400}, {(i * 13) % 101}%, {(i * 29) % 101}%)")
    for s in samples:
        c = color3.parse_color(s)
        if c is None:
            raise HarnessError(f"O-CSS: tinycss2 rejects sample {s}")
        r, g, b, a = parse(s)
        for mine, theirs in ((r, c.red), (g, c.green), (b, c.blue)):
            if abs(float(mine) / 255.0 - float(theirs)) > 1e-6:
                raise HarnessError(f"O-CSS: {s}: mine {float(mine)/255} tinycss2 {theirs}")
        if abs(float(a) - float(c.alpha)) > 1e-9:
            raise HarnessError(f"O-CSS: alpha of {s}")
    # well-known HSL anchors
    anchors = {"hsl(0,100%,50%)": (255, 0, 0), "hsl(120,100%,50%)": (0, 255, 0), "hsl(240,100%,50%)": (0, 0, 255),
               "hsl(60,100%,50%)": (255, 255, 0), "hsl(0,0%,50%)": None, "hsl(300,100%,25%)": None}
    for s, want in anchors.items():
        if want and read_rgb(s) != want:
            raise HarnessError(f"O-CSS anchor {s}")
    grey_ties = {(x, y, z) for x in (127, 128) for y in (127, 128) for z in (127, 128)}
    if read_rgb_set("hsl(0,0%,50%)") != grey_ties or read_rgb_set("rgb(50%,50%,50%)") != grey_ties:
        raise HarnessError("O-CSS tie handling")
    for bad in ("rgb(1,2)", "hsl(1,2,3)", "#12", "#12345", "rgb(1,2,3", "foo", "", "rgb(1%,2,3)", "rgb(1.5,2,3)"):
        try:
            parse(bad)
        except CssReject:
            continue
        raise HarnessError(f"O-CSS accepts {bad!r}")
    # exact RGB -> HSL -> RGB identity
    for rgb in ((0, 0, 1), (12, 200, 77), (255, 254, 0), (128, 128, 128), (1, 0, 255)):
        h, s, l = rgb_to_hsl_exact(rgb)
        back = hsl_to_rgb_exact(h, s, l)
        if tuple(back) != tuple(F(c) for c in rgb):
            raise HarnessError(f"O-CSS: exact HSL round trip {rgb} -> {back}")


# ---- fast float path (bulk enumeration) ------------------------------------------------------------
# Decides the common output shapes without Fractions; anything it cannot decide safely (unknown shape,
# channel within 1e-6 of a rounding tie) is handed to the exact parser above.

_HEX6_RE = re.compile(r"#([0-9a-fA-F]{2})([0-9a-fA-F]{2})([0-9a-fA-F]{2})\Z")
_RGBI_RE = re.compile(r"[rR][gG][bB]\([ \t\n\r\f]*([+-]?\d+)[ \t\n\r\f]*,[ \t\n\r\f]*([+-]?\d+)[ \t\n\r\f]*,[ \t\n\r\f]*([+-]?\d+)[ \t\n\r\f]*\)\Z")
_PLAIN = r"[+-]?(?:\d+\.\d+|\.\d+|\d+)"
_HSL_RE = re.compile(r"[hH][sS][lL]\([ \t\n\r\f]*(" + _PLAIN + r")[ \t\n\r\f]*,[ \t\n\r\f]*(" + _PLAIN + r")%[ \t\n\r\f]*,[ \t\n\r\f]*(" + _PLAIN + r")%[ \t\n\r\f]*\)\Z")


def _hsl_float(h, s, l):
    h = (h % 360.0) / 360.0
    m2 = l * (s + 1.0) if l <= 0.5 else l + s - l * s
    m1 = l * 2.0 - m2

    def hue(hh):
        if hh < 0:
            hh += 1.0
        if hh > 1:
            hh -= 1.0
        if hh * 6.0 < 1.0:
            return m1 + (m2 - m1) * hh * 6.0
        if hh * 2.0 < 1.0:
            return m2
        if hh * 3.0 < 2.0:
            return m1 + (m2 - m1) * (2.0 / 3.0 - hh) * 6.0
        return m1

    return (255.0 * hue(h + 1.0 / 3.0), 255.0 * hue(h), 255.0 * hue(h - 1.0 / 3.0))


def read_fast(s):
    """Set of 8-bit triples a conforming consumer may read from an opaque CSS colour string."""
    m = _HEX6_RE.match(s)
    if m:
        return {(int(m.group(1), 16), int(m.group(2), 16), int(m.group(3), 16))}
    m = _RGBI_RE.match(s)
    if m:
        return {tuple(min(255, max(0, int(g))) for g in m.groups())}
    m = _HSL_RE.match(s)
    if m:
        h, sp, lp = float(m.group(1)), float(m.group(2)), float(m.group(3))
        sat = min(1.0, max(0.0, sp / 100.0))
        lig = min(1.0, max(0.0, lp / 100.0))
        pre = _hsl_float(h, sat, lig)
        out = []
        for v in pre:
            fl = int(v // 1)
            fr = v - fl
            if abs(fr - 0.5) < 1e-6:
                return read_rgb_set(s)
            out.append(fl + (1 if fr > 0.5 else 0))
        # sector boundaries: the float path may pick the other branch than exact arithmetic, but both
        # branches agree there (the piecewise function is continuous), so no special handling is needed.
        return {tuple(min(255, max(0, v)) for v in out)}
    return read_rgb_set(s)


def selftest_fast():
    import itertools

    for s in ("#00ff7f", "rgb(1, 2, 3)", "RGB( 300 ,+4,-5 )", "hsl(0, 0%, 50%)", "hsl(240.0, 100.00000000000036%, 0.19607843137254902%)",
              "hsl(11.566265060240962, 100.0%, 67.45098039215686%)", "hsl(359.9, 12.5%, 40%)", "hsl(-30, 50%, 50%)", "hsl(90,100%,50%)"):
        if read_fast(s) != read_rgb_set(s):
            raise HarnessError(f"O-CSS fast path disagrees with the exact path on {s!r}: {read_fast(s)} vs {read_rgb_set(s)}")
    k = 0
    for r, g, b in itertools.product(range(0, 256, 37), range(0, 256, 41), range(0, 256, 43)):
        h, sat, lig = rgb_to_hsl_exact((r, g, b))
        s = f"hsl({float(h)!r}, {float(sat * 100)!r}%, {float(lig * 100)!r}%)"
        if read_fast(s) != read_rgb_set(s):
            raise HarnessError(f"O-CSS fast path disagrees with the exact path on {s!r}")
        k += 1


# ---- library INPUT spellings: CSS Color 3 plus the documented '#'-less hex form -----------------------

_NOHASH_RE = re.compile(r"[0-9a-fA-F]{3}\Z|[0-9a-fA-F]{6}\Z")


_RGB4_COMMA = re.compile(r"rgb\(\s*(" + _NUM + r"%?)\s*,\s*(" + _NUM + r"%?)\s*,\s*(" + _NUM + r"%?)\s*,\s*(" + _NUM + r")\s*\)\Z", re.I)
_RGB4_SLASH = re.compile(r"rgb\(\s*(" + _NUM + r"%?)\s+(" + _NUM + r"%?)\s+(" + _NUM + r"%?)\s*/\s*(" + _NUM + r")\s*\)\Z", re.I)


def _as_css(s):
    """Map the library's documented non-CSS3 input forms onto CSS3: '#'-less hex, and the CSS Color 4 aliases of rgba()
    that it accepts and composites (rgb(r, g, b, a) and rgb(r g b / a))."""
    if isinstance(s, str):
        t = s.strip(_WS)
        if t.lower() not in KEYWORD_RGB and _NOHASH_RE.match(t):
            return "#" + t
        m = _RGB4_COMMA.match(t) or _RGB4_SLASH.match(t)
        if m:
            return "rgba({}, {}, {}, {})".format(*m.groups())
    return s


def parse_input(s):
    return parse(_as_css(s))


def read_input_set(s):
    return read_rgb_set(_as_css(s))
