"""O-SHEET: structural normal form of a stylesheet, built on tinycss2's tokenizer / rule parser (used here
as an independent reader; it is third-party code, not code under test). Imports nothing from cm_colors.

normal(text) -> list of nodes
   ("rule", prelude_nf, [decl nodes])
   ("at", lower_name, prelude_nf, body)      body: None | ("rules", [nodes]) for @media/@supports | ("block", tokens_nf)
   ("comment", text)                          non-empty comments only
decl nodes
   ("decl", lower_name, value_nf, important) | ("comment", text) | ("at", ...) | ("error", kind)
tokens are compared by VALUE (escapes, quote style, number spelling do not matter); whitespace runs collapse to one
("ws",) and are dropped at both ends; empty comments /**/ (which tinycss2's serializer inserts as token separators) are
dropped; non-empty comments are kept verbatim.
"""
import re

import tinycss2
from tinycss2 import ast

from vlib.runner import HarnessError

NESTING = ("media", "supports")


def _tok(t):
    ty = t.type
    if ty == "whitespace":
        return ("ws",)
    if ty == "comment":
        return ("comment", t.value) if t.value else None
    if ty == "ident":
        return ("ident", t.value)
    if ty == "at-keyword":
        return ("at-keyword", t.value)
    if ty == "hash":
        return ("hash", t.value, bool(t.is_identifier))
    if ty == "string":
        return ("string", t.value)
    if ty == "url":
        return ("url", t.value)
    if ty == "unicode-range":
        return ("unicode-range", t.start, t.end)
    if ty == "number":
        return ("number", t.value, bool(t.is_integer))
    if ty == "percentage":
        return ("percentage", t.value)
    if ty == "dimension":
        return ("dimension", t.value, t.lower_unit)
    if ty == "literal":
        return ("literal", t.value)
    if ty == "function":
        return ("function", t.lower_name, tokens_nf(t.arguments))
    if ty in ("() block", "[] block", "{} block"):
        return (ty, tokens_nf(t.content))
    if ty == "error":
        return ("error", t.kind)
    return ("other", ty, tinycss2.serialize([t]))


def tokens_nf(tokens):
    out = []
    for t in tokens or ():
        n = _tok(t)
        if n is None:
            continue
        if n == ("ws",) and (not out or out[-1] == ("ws",)):
            continue
        out.append(n)
    while out and out[-1] == ("ws",):
        out.pop()
    return tuple(out)


def decls_nf(content):
    out = []
    for d in tinycss2.parse_declaration_list(content or [], skip_whitespace=True, skip_comments=False):
        if d.type == "declaration":
            # property names are ASCII case-insensitive, custom property names ("--x") are case-SENSITIVE
            name = d.name if d.name.startswith("--") else d.lower_name
            out.append(("decl", name, tokens_nf(d.value), bool(d.important)))
        elif d.type == "comment":
            if d.value:
                out.append(("comment", d.value))
        elif d.type == "at-rule":
            out.append(_at_nf(d))
        elif d.type == "error":
            out.append(("error", d.kind))
        elif d.type == "qualified-rule":  # nested rule inside a declaration list (newer tinycss2)
            out.append(("rule", tokens_nf(d.prelude), decls_nf(d.content)))
        else:
            out.append(("other", d.type))
    return out


def _at_nf(r):
    name = r.lower_at_keyword
    if r.content is None:
        body = None
    elif name in NESTING:
        body = ("rules", rules_nf(tinycss2.parse_rule_list(r.content, skip_whitespace=True, skip_comments=False)))
    else:
        body = ("block", tokens_nf(r.content))
    return ("at", name, tokens_nf(r.prelude), body)


def rules_nf(rules):
    out = []
    for r in rules:
        if r.type == "qualified-rule":
            out.append(("rule", tokens_nf(r.prelude), decls_nf(r.content)))
        elif r.type == "at-rule":
            out.append(_at_nf(r))
        elif r.type == "comment":
            if r.value:
                out.append(("comment", r.value))
        elif r.type == "whitespace":
            continue
        elif r.type == "error":
            out.append(("error", r.kind))
        else:
            out.append(("other", r.type))
    return out


def normal(text):
    return rules_nf(tinycss2.parse_stylesheet(text, skip_whitespace=True, skip_comments=False))


def has_error(nf):
    """True if any ("error", ...) node occurs anywhere in the normal form."""
    if isinstance(nf, (list, tuple)):
        if len(nf) >= 1 and nf[0] == "error" and isinstance(nf, tuple):
            return True
        return any(has_error(x) for x in nf)
    return False


# ---- views used by the CLI oracles ---------------------------------------------------------------------------

MARK_RE = re.compile(r"\.r(\d+)(?!\d)")


def nf_text(tokens):
    """Readable rendering of a token normal form (for messages and for extracting marker names)."""
    parts = []
    for t in tokens:
        k = t[0]
        if k == "ws":
            parts.append(" ")
        elif k == "ident":
            parts.append(t[1])
        elif k == "hash":
            parts.append("#" + t[1])
        elif k == "literal":
            parts.append(t[1])
        elif k == "string":
            parts.append('"' + t[1] + '"')
        elif k == "function":
            parts.append(t[1] + "(" + nf_text(t[2]) + ")")
        elif k in ("() block", "[] block", "{} block"):
            parts.append(k[0] + nf_text(t[1]) + k[1])
        elif k in ("number", "percentage", "dimension"):
            v = float(t[1])
            s = str(int(v)) if v.is_integer() else repr(v)
            parts.append(s + ("%" if k == "percentage" else (t[2] if k == "dimension" else "")))
        elif k == "comment":
            parts.append("/*" + t[1] + "*/")
        else:
            parts.append(str(t[1]) if len(t) > 1 else "")
    return "".join(parts)


def style_rules(nf, path=()):
    """Yield (path, rule_node) for every style rule at top level and inside @media/@supports, in document order."""
    for i, n in enumerate(nf):
        if n[0] == "rule":
            yield path + (i,), n
        elif n[0] == "at" and n[1] in NESTING and n[3] and n[3][0] == "rules":
            yield from style_rules(n[3][1], path + (i,))


def marker_of(rule):
    """Marker number of a generated style rule (from its `.rN` class), or None."""
    m = MARK_RE.search(nf_text(rule[1]))
    return int(m.group(1)) if m else None


def selector_kind(rule):
    """':root' / 'html' for the exact selectors the tool treats as variable scopes, else None."""
    p = tuple(t for t in rule[1] if t != ("ws",))
    if p == (("literal", ":"), ("ident", "root")):
        return ":root"
    if p == (("ident", "html"),):
        return "html"
    return None


def decl_list(rule):
    return [d for d in rule[2] if d[0] == "decl"]


def last_decl(rule, name):
    found = None
    for d in decl_list(rule):
        if d[1] == name:
            found = d
    return found


def custom_properties(nf):
    """{name: value_nf} from TOP-LEVEL :root / html rules (later definitions win), as CSS would see them for the
    root element; custom property names are case-sensitive and are kept as written."""
    props = {}
    for n in nf:
        if n[0] == "rule" and selector_kind(n):
            for d in decl_list(n):
                if d[1].startswith("--"):
                    props[d[1]] = d[2]
    return props


def _strip_ws(tokens):
    toks = [t for t in tokens]
    while toks and toks[0] == ("ws",):
        toks.pop(0)
    while toks and toks[-1] == ("ws",):
        toks.pop()
    return tuple(toks)


def resolve(value_nf, props, depth=0, seen=()):
    """CSS var() substitution for a value consisting of a single var() (or no var() at all).
    Returns the resolved token tuple, or None when the value is invalid at computed-value time."""
    v = _strip_ws(tuple(t for t in value_nf if t[0] != "comment"))
    if depth > 12:
        return None
    if len(v) == 1 and v[0][0] == "function" and v[0][1] == "var":
        args = list(v[0][2])
        # split at the first top-level comma
        name_part, fb = args, None
        for i, t in enumerate(args):
            if t == ("literal", ","):
                name_part, fb = args[:i], tuple(args[i + 1:])
                break
        name_part = _strip_ws(tuple(name_part))
        if len(name_part) != 1 or name_part[0][0] != "ident" or not name_part[0][1].startswith("--"):
            return None
        name = name_part[0][1]
        if name in props and name not in seen:
            r = resolve(props[name], props, depth + 1, seen + (name,))
            if r is not None and len(r) > 0:
                return r
            if name in props and r is not None:
                return r
        if fb is not None:
            return resolve(fb, props, depth + 1, seen)
        return None
    if any(t[0] == "function" and t[1] == "var" for t in v):
        return None  # var() mixed with other tokens: not generated, treated as unresolvable
    return v


def var_name_of(value_nf):
    """If the value is a single var(--x [, fallback]) return (name, has_fallback) else None."""
    v = _strip_ws(tuple(t for t in value_nf if t[0] != "comment"))
    if len(v) == 1 and v[0][0] == "function" and v[0][1] == "var":
        args = _strip_ws(v[0][2])
        if args and args[0][0] == "ident" and args[0][1].startswith("--"):
            return args[0][1], any(t == ("literal", ",") for t in args)
    return None


def colour_string(value_nf):
    """Text of a resolved colour value, for O-CSS / ColorPair."""
    return nf_text(value_nf).strip()


def selftest():
    a = normal(".a{color:red;margin:0  auto}/**/ @media print{.b{color:#FFF}}\n/*keep*/")
    b = normal(".a { color : red ; margin : 0 auto ; }\n@media print {\n  .b { color: #FFF; }\n}\n/*keep*/")
    if a != b:
        raise HarnessError(f"O-SHEET: whitespace/semicolon variants differ: {a} vs {b}")
    if normal(".a{color:red}") == normal(".a{color:blue}") or normal(".a{color:red}") == normal(".b{color:red}"):
        raise HarnessError("O-SHEET: different sheets compare equal")
    if normal("a b{x:y}") == normal("ab{x:y}") or normal(".a{margin:0 auto}") == normal(".a{margin:0auto}"):
        raise HarnessError("O-SHEET: significant whitespace lost")
    if normal(".a{x:y}/*c*/") == normal(".a{x:y}") or normal(".a{x:y !important}") == normal(".a{x:y}"):
        raise HarnessError("O-SHEET: comment / !important lost")
    if normal('.a{content:"\\41"}') != normal(".a{content:'A'}"):
        raise HarnessError("O-SHEET: escapes not compared by value")
    if normal(":nth-child(2n/**/+1){x:y}") != normal(":nth-child(2n+1){x:y}"):
        raise HarnessError("O-SHEET: empty separator comments not ignored")
    nf = normal(":root{--x: #777; --y: var(--x)} .r3{color:var(--y)} @media print{.r4:hover{color:var(--nope, #123)}}")
    props = custom_properties(nf)
    rules = dict((marker_of(r), r) for _, r in style_rules(nf))
    if colour_string(resolve(last_decl(rules[3], "color")[2], props)) != "#777":
        raise HarnessError("O-SHEET: var() chain resolution")
    if colour_string(resolve(last_decl(rules[4], "color")[2], props)) != "#123":
        raise HarnessError("O-SHEET: var() fallback resolution")
    if resolve(normal(".x{color:var(--nope)}")[0][2][0][2], props) is not None:
        raise HarnessError("O-SHEET: undefined var() must be invalid")
    cs = custom_properties(normal(":root{--Main: #111; --main: #eee} .r1{color:var(--Main)}"))
    if set(cs) != {"--Main", "--main"}:
        raise HarnessError("O-SHEET: custom property names must be case-sensitive")
    if not has_error(normal(".a{*zoom:1}")):
        raise HarnessError("O-SHEET: parse errors not reported")
