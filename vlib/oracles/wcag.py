"""O-WCAG: WCAG 2 relative luminance, contrast ratio and level table. Written from the WCAG 2.x
definition; imports nothing from cm_colors."""
from decimal import Decimal, getcontext
from fractions import Fraction

from vlib.runner import HarnessError

THRESHOLDS = (3.0, 4.5, 7.0)


def lin(c8: int) -> float:
    c = c8 / 255.0
    # WCAG text says 0.03928; sRGB says 0.04045; identical on all 256 8-bit levels (self-tested).
    return c / 12.92 if c <= 0.04045 else ((c + 0.055) / 1.055) ** 2.4


_LIN = [lin(i) for i in range(256)]


def lum(rgb) -> float:
    return 0.2126 * _LIN[rgb[0]] + 0.7152 * _LIN[rgb[1]] + 0.0722 * _LIN[rgb[2]]


def ratio(a, b) -> float:
    la, lb = lum(a), lum(b)
    if la < lb:
        la, lb = lb, la
    return (la + 0.05) / (lb + 0.05)


def minimum(large: bool, very: bool) -> float:
    """Required minimum (written out, not derived)."""
    if very:
        return 4.5 if large else 7.0
    return 3.0 if large else 4.5


def level(r: float, large: bool) -> str:
    if large:
        return "AAA" if r >= 4.5 else ("AA" if r >= 3.0 else "FAIL")
    return "AAA" if r >= 7.0 else ("AA" if r >= 4.5 else "FAIL")


def label(r: float, large: bool) -> str:
    return {"AAA": "Very Readable", "AA": "Readable", "FAIL": "Not Readable"}[level(r, large)]


# ---- 40-digit decimal re-judge for ratios that sit on a threshold -------------------------------


def _dlin(c8: int) -> Decimal:
    getcontext().prec = 40
    c = Decimal(c8) / Decimal(255)
    if c <= Decimal("0.04045"):
        return c / Decimal("12.92")
    base = (c + Decimal("0.055")) / Decimal("1.055")
    return (base.ln() * Decimal("2.4")).exp()


def dratio(a, b) -> Decimal:
    getcontext().prec = 40
    w = (Decimal("0.2126"), Decimal("0.7152"), Decimal("0.0722"))
    la = sum(w[i] * _dlin(a[i]) for i in range(3))
    lb = sum(w[i] * _dlin(b[i]) for i in range(3))
    if la < lb:
        la, lb = lb, la
    return (la + Decimal("0.05")) / (lb + Decimal("0.05"))


def meets(a, b, thr: float):
    """True / False / None (indeterminate: within 1e-12 of the threshold even in 40-digit decimal)."""
    r = ratio(a, b)
    if abs(r - thr) > 1e-9 * thr:
        return r >= thr
    d = dratio(a, b) - Decimal(repr(thr))
    if abs(d) < Decimal("1e-12"):
        return None
    return d > 0


def selftest():
    def close(x, y, tol):
        return abs(x - y) <= tol

    if ratio((0, 0, 0), (255, 255, 255)) != 21.0 and not close(ratio((0, 0, 0), (255, 255, 255)), 21.0, 1e-12):
        raise HarnessError("O-WCAG: black/white != 21")
    g = lambda v: (v, v, v)
    W = (255, 255, 255)
    checks = [
        (ratio(g(0x76), W), 4.54, 0.01, True, 4.5),
        (ratio(g(0x77), W), 4.48, 0.01, False, 4.5),
        (ratio(g(0x59), W), 7.0, 0.01, True, 7.0),
        (ratio(g(0x94), W), 3.03, 0.01, True, 3.0),
        (ratio(g(0x95), W), 2.99, 0.01, False, 3.0),
    ]
    for r, want, tol, passes, thr in checks:
        if not close(r, want, tol) or ((r >= thr) != passes):
            raise HarnessError(f"O-WCAG anchor failed: {r} vs {want}")
    # pure red / green / blue luminances are the weights themselves
    for rgb, w in (((255, 0, 0), 0.2126), ((0, 255, 0), 0.7152), ((0, 0, 255), 0.0722)):
        if not close(lum(rgb), w, 1e-15):
            raise HarnessError("O-WCAG weights")
    # 0.03928 vs 0.04045: same side on every 8-bit level
    for i in range(256):
        c = i / 255.0
        if (c <= 0.03928) != (c <= 0.04045):
            raise HarnessError("O-WCAG: linearisation thresholds differ on an 8-bit level")
    # float vs decimal agreement on a deterministic lattice
    k = 0
    for a in range(0, 256, 51):
        for b in range(0, 256, 85):
            t, u = (a, b, (a * 7 + b) % 256), (b, (a + 40) % 256, a)
            if abs(Decimal(ratio(t, u)) - dratio(t, u)) > Decimal("1e-12"):
                raise HarnessError("O-WCAG: float and decimal ratio disagree")
            k += 1
    # exact rational sanity: luminance of mid-grey 0x80 roughly 0.2159
    if not close(lum(g(128)), 0.21586, 1e-4):
        raise HarnessError("O-WCAG grey anchor")
    _ = Fraction(1, 2)
