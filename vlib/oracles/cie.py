"""O-LAB / O-DE00: sRGB -> XYZ (D65) -> CIE L*a*b* with the exact CIE constants, and CIEDE2000 after
Sharma, Wu & Dalal (2005). Imports nothing from cm_colors."""
import math
import os

from vlib.runner import HarnessError, VERIF_DIR

_EPS = 216.0 / 24389.0
_KAPPA = 24389.0 / 27.0
_WHITE = (95.047, 100.0, 108.883)


def _lin(c8):
    c = c8 / 255.0
    return c / 12.92 if c <= 0.04045 else ((c + 0.055) / 1.055) ** 2.4


_LIN = [_lin(i) for i in range(256)]


def rgb_to_xyz(rgb):
    r, g, b = _LIN[rgb[0]], _LIN[rgb[1]], _LIN[rgb[2]]
    # IEC 61966-2-1 sRGB primaries, D65 (Lindbloom's 7-digit matrix)
    x = 0.4124564 * r + 0.3575761 * g + 0.1804375 * b
    y = 0.2126729 * r + 0.7151522 * g + 0.0721750 * b
    z = 0.0193339 * r + 0.1191920 * g + 0.9503041 * b
    return (100.0 * x, 100.0 * y, 100.0 * z)


def _f(t):
    return t ** (1.0 / 3.0) if t > _EPS else (_KAPPA * t + 16.0) / 116.0


def xyz_to_lab(xyz):
    fx, fy, fz = (_f(xyz[i] / _WHITE[i]) for i in range(3))
    return (116.0 * fy - 16.0, 500.0 * (fx - fy), 200.0 * (fy - fz))


def rgb_to_lab(rgb):
    return xyz_to_lab(rgb_to_xyz(rgb))


def de00_lab(lab1, lab2):
    """CIEDE2000 (kL = kC = kH = 1), implementation notes of Sharma et al., eqs. 2-22."""
    L1, a1, b1 = lab1
    L2, a2, b2 = lab2
    C1 = math.hypot(a1, b1)
    C2 = math.hypot(a2, b2)
    Cb = (C1 + C2) / 2.0
    G = 0.5 * (1.0 - math.sqrt(Cb**7 / (Cb**7 + 25.0**7)))
    ap1 = (1.0 + G) * a1
    ap2 = (1.0 + G) * a2
    Cp1 = math.hypot(ap1, b1)
    Cp2 = math.hypot(ap2, b2)

    def hue(b, ap):
        if b == 0 and ap == 0:
            return 0.0
        h = math.degrees(math.atan2(b, ap))
        return h + 360.0 if h < 0 else h

    hp1 = hue(b1, ap1)
    hp2 = hue(b2, ap2)
    dLp = L2 - L1
    dCp = Cp2 - Cp1
    if Cp1 * Cp2 == 0:
        dhp = 0.0
    else:
        d = hp2 - hp1
        if abs(d) <= 180.0:
            dhp = d
        elif d > 180.0:
            dhp = d - 360.0
        else:
            dhp = d + 360.0
    dHp = 2.0 * math.sqrt(Cp1 * Cp2) * math.sin(math.radians(dhp / 2.0))
    Lbp = (L1 + L2) / 2.0
    Cbp = (Cp1 + Cp2) / 2.0
    if Cp1 * Cp2 == 0:
        hbp = hp1 + hp2
    else:
        if abs(hp1 - hp2) <= 180.0:
            hbp = (hp1 + hp2) / 2.0
        elif hp1 + hp2 < 360.0:
            hbp = (hp1 + hp2 + 360.0) / 2.0
        else:
            hbp = (hp1 + hp2 - 360.0) / 2.0
    T = (
        1.0
        - 0.17 * math.cos(math.radians(hbp - 30.0))
        + 0.24 * math.cos(math.radians(2.0 * hbp))
        + 0.32 * math.cos(math.radians(3.0 * hbp + 6.0))
        - 0.20 * math.cos(math.radians(4.0 * hbp - 63.0))
    )
    dtheta = 30.0 * math.exp(-(((hbp - 275.0) / 25.0) ** 2))
    RC = 2.0 * math.sqrt(Cbp**7 / (Cbp**7 + 25.0**7))
    SL = 1.0 + 0.015 * (Lbp - 50.0) ** 2 / math.sqrt(20.0 + (Lbp - 50.0) ** 2)
    SC = 1.0 + 0.045 * Cbp
    SH = 1.0 + 0.015 * Cbp * T
    RT = -math.sin(math.radians(2.0 * dtheta)) * RC
    x = dLp / SL
    y = dCp / SC
    z = dHp / SH
    v = x * x + y * y + z * z + RT * y * z
    return math.sqrt(v) if v > 0 else 0.0


def de00(rgb1, rgb2):
    return de00_lab(rgb_to_lab(rgb1), rgb_to_lab(rgb2))


def sharma_pairs():
    rows = []
    with open(os.path.join(VERIF_DIR, "notes", "sharma_ciede2000_pairs.txt")) as f:
        for line in f:
            if line.startswith("#") or not line.strip():
                continue
            v = [float(x) for x in line.split()]
            rows.append((tuple(v[0:3]), tuple(v[3:6]), v[6]))
    return rows


def selftest():
    rows = sharma_pairs()
    if len(rows) != 34:
        raise HarnessError(f"O-DE00: expected 34 Sharma pairs, got {len(rows)}")
    for l1, l2, want in rows:
        for a, b in ((l1, l2), (l2, l1)):
            got = de00_lab(a, b)
            if abs(got - want) > 1e-4:
                raise HarnessError(f"O-DE00: Sharma pair {l1} {l2}: {got} != {want}")
    # Lab anchors: white (100,0,0), black (0,0,0), sRGB red (53.24, 80.09, 67.20), blue (32.30, 79.19, -107.86)
    anchors = {
        (255, 255, 255): (100.0, 0.0, 0.0),
        (0, 0, 0): (0.0, 0.0, 0.0),
        (255, 0, 0): (53.24, 80.09, 67.20),
        (0, 255, 0): (87.73, -86.18, 83.18),
        (0, 0, 255): (32.30, 79.19, -107.86),
    }
    for rgb, want in anchors.items():
        got = rgb_to_lab(rgb)
        if any(abs(got[i] - want[i]) > 0.02 for i in range(3)):
            raise HarnessError(f"O-LAB anchor {rgb}: {got} != {want}")
