"""O-HTML: element skeleton, text nodes and attribute values of an HTML document via the standard
library's html.parser (convert_charrefs=True). Imports nothing from cm_colors."""
from html.parser import HTMLParser

from vlib.runner import HarnessError

VOID = {"meta", "link", "br", "hr", "img", "input"}


class _P(HTMLParser):
    def __init__(self):
        super().__init__(convert_charrefs=True)
        self.skeleton = []  # ("start", tag, (attr names...)) / ("end", tag) / ("comment",) / ("decl",)
        self.nodes = []  # every event in order, with payloads: ("start", tag, attrs dict) / ("end", tag) / ("text", str)
        self.stack = []

    def handle_starttag(self, tag, attrs):
        self.skeleton.append(("start", tag, tuple(a for a, _ in attrs)))
        self.nodes.append(("start", tag, dict(attrs), list(attrs)))
        if tag not in VOID:
            self.stack.append(tag)

    def handle_startendtag(self, tag, attrs):
        self.skeleton.append(("startend", tag, tuple(a for a, _ in attrs)))
        self.nodes.append(("start", tag, dict(attrs), list(attrs)))

    def handle_endtag(self, tag):
        self.skeleton.append(("end", tag))
        self.nodes.append(("end", tag))

    def handle_data(self, data):
        self.nodes.append(("text", data))

    def handle_comment(self, data):
        self.skeleton.append(("comment",))
        self.nodes.append(("comment", data))

    def handle_decl(self, decl):
        self.skeleton.append(("decl", decl.lower()))

    def handle_pi(self, data):
        self.skeleton.append(("pi",))

    def unknown_decl(self, data):
        self.skeleton.append(("unknown-decl",))


def parse(doc: str):
    p = _P()
    p.feed(doc)
    p.close()
    return p


def cards(doc: str):
    """Extract report cards: list of dicts with the text of the user-visible slots and the two style attributes.
    Works for both report generators (same card layout)."""
    p = parse(doc)
    out = []
    cur = None
    stack = []
    grab = None
    for ev in p.nodes:
        if ev[0] == "start":
            tag, attrs = ev[1], ev[2]
            if tag in VOID:
                continue
            cls = attrs.get("class") or ""
            stack.append((tag, cls))
            if tag == "div" and cls == "card":
                cur = {"selector": "", "file": "", "codes": [], "styles": [], "badges": []}
                out.append(cur)
            if cur is not None:
                if cls in ("selector", "file-info", "color-code") or cls.startswith("badge"):
                    grab = cls
                    if cls == "color-code":
                        cur["codes"].append("")
                    if cls.startswith("badge"):
                        cur["badges"].append("")
                if cls == "color-box":
                    cur["styles"].append(attrs.get("style"))
        elif ev[0] == "end":
            if stack:
                stack.pop()
            grab = None
        elif ev[0] == "text" and cur is not None and grab:
            if grab == "selector":
                cur["selector"] += ev[1]
            elif grab == "file-info":
                cur["file"] += ev[1]
            elif grab == "color-code":
                cur["codes"][-1] += ev[1]
            elif grab.startswith("badge"):
                cur["badges"][-1] += ev[1]
    return out


def selftest():
    doc = '<div class="card"><div class="selector">a &lt;b&gt; &amp;amp;</div><div class="file-info">f.css</div>' \
          '<div class="color-box" style="background-color: #fff; color: #000;"><div class="color-code">#000</div><div class="badge badge-fail">FAIL</div></div></div>'
    c = cards(doc)
    if len(c) != 1 or c[0]["selector"] != "a <b> &amp;" or c[0]["file"] != "f.css" or c[0]["codes"] != ["#000"] or c[0]["styles"] != ["background-color: #fff; color: #000;"]:
        raise HarnessError(f"O-HTML self-test: {c}")
    inj = parse('<div class="selector"><script>x</script></div>')
    if ("start", "script", ()) not in inj.skeleton:
        raise HarnessError("O-HTML does not see an injected element")
    inj2 = parse('<div style="a" onload="b"></div>')
    if inj2.skeleton[0] != ("start", "div", ("style", "onload")):
        raise HarnessError("O-HTML does not see an injected attribute")
