"""Running an atheris (libFuzzer) target as one shard of an enumeration sub-check."""
import json
import os
import shutil
import subprocess
import sys
import tempfile

from vlib.runner import VERIF_DIR


def atheris_block_factory(target, result_env, runs, dictionary=None, seed_literals=None, max_len=64, label="atheris"):
    def block(shard, nshards):
        script = os.path.join(VERIF_DIR, "fuzz", target)
        deps = os.path.join(VERIF_DIR, ".deps")
        env = dict(os.environ)
        env["PYTHONPATH"] = os.pathsep.join([os.path.join(env.get("VERIF_REPO", "/repo"), "src"), VERIF_DIR, deps])
        probe = subprocess.run([sys.executable, "-c", "import atheris"], env=env, capture_output=True)
        if probe.returncode != 0:
            return {"evals": 0, "nt": 0, "violations": [], "notes": ["atheris not importable: stage skipped"], "classes": {f"{label}-skipped": 1}}
        work = tempfile.mkdtemp(prefix=f"fuzz{shard}_")
        try:
            corpus = os.path.join(work, "corpus")
            os.makedirs(corpus)
            if seed_literals and shard % 2 == 1:  # odd shards start from a few valid literals, even ones from an empty corpus
                for i, lit in enumerate(seed_literals):
                    with open(os.path.join(corpus, f"s{i}"), "w") as f:
                        f.write(lit)
            seed = int(os.environ.get("VERIF_SEED", "1") or 1) * 1000 + shard
            out = os.path.join(work, "result.json")
            cmd = [sys.executable, script, corpus, f"-runs={runs}", f"-seed={seed}", f"-max_len={max_len}", f"-artifact_prefix={work}/", "-print_final_stats=0", "-verbosity=0"]
            if dictionary:
                cmd.append(f"-dict={os.path.join(VERIF_DIR, 'fuzz', dictionary)}")
            env[result_env] = out
            p = subprocess.run(cmd, env=env, capture_output=True, text=True, timeout=7200)
            res = {"evals": 0, "nt": 0, "violations": []}
            if os.path.exists(out):
                res = json.load(open(out))
            elif p.returncode != 0:
                res["notes"] = [f"atheris exited {p.returncode}: {p.stderr[-300:]}"]
            res.setdefault("classes", {})[f"{label}-exec"] = res.get("evals", 0)
            return res
        finally:
            shutil.rmtree(work, ignore_errors=True)

    return block
