"""G-css-colour: CSS Color 3 functional notations generated as STRINGS first (the expected colour is
whatever O-CSS computes from the string). Plain decimal notation only, as the properties state."""
from hypothesis import strategies as st

WS_CHARS = [" ", "\t", "\n", "\r", "\f"]
ws = st.lists(st.sampled_from(WS_CHARS), max_size=2).map("".join)
ws0 = st.one_of(st.just(""), st.just(""), st.just(" "), ws)


def _case_mix(draw, s):
    flags = draw(st.lists(st.booleans(), min_size=len(s), max_size=len(s)))
    return "".join(ch.upper() if f else ch.lower() for ch, f in zip(s, flags))


@st.composite
def decimal(draw, lo, hi, max_dec=4, allow_sign=True, allow_lead_dot=True):
    """A plain-decimal string denoting a value in [lo, hi]. Returns the string."""
    dec = draw(st.sampled_from([0, 0, 1, 2, 3, max_dec, 6]))
    scale = 10**dec
    n = draw(st.integers(int(lo * scale), int(hi * scale)))
    neg = n < 0
    n = abs(n)
    ip, fp = divmod(n, scale)
    if dec:
        s = f"{ip}.{fp:0{dec}d}"
        if ip == 0 and allow_lead_dot and draw(st.integers(0, 3)) == 0:
            s = s[1:]
    else:
        s = str(ip)
        if draw(st.integers(0, 15)) == 0:
            s = "0" * draw(st.integers(1, 2)) + s
    if neg:
        s = "-" + s
    elif allow_sign and draw(st.integers(0, 9)) == 0:
        s = "+" + s
    return s


@st.composite
def alpha(draw):
    k = draw(st.integers(0, 5))
    if k == 0:
        return draw(st.sampled_from(["0", "1", "0.0", "1.0", "0.5", ".5", "1.00", "0.000"]))
    return draw(decimal(0, 1, max_dec=5, allow_sign=False))


@st.composite
def css_function(draw, kinds=("rgb", "rgbp", "rgba", "rgbap", "hsl", "hsla")):
    kind = draw(st.sampled_from(kinds))
    w = [draw(ws0) for _ in range(10)]
    feats = set()
    if any(x not in ("", " ") for x in w) or any(w[i] for i in (0, 1, 2, 4, 6, 8, 9)):
        feats.add("ws")
    if kind in ("rgb", "rgba"):
        comps = [str(draw(st.integers(0, 255))) for _ in range(3)]
        if draw(st.integers(0, 9)) == 0:
            i = draw(st.integers(0, 2))
            comps[i] = draw(st.sampled_from(["+", "0", "00"])) + comps[i]
            feats.add("sign/zeros")
    elif kind in ("rgbp", "rgbap"):
        comps = [draw(decimal(0, 100)) + "%" for _ in range(3)]
        feats.add("percent")
        if any("." in c for c in comps):
            feats.add("non-integer")
    else:
        h = draw(st.one_of(decimal(0, 360), decimal(-720, 1080), st.sampled_from(["0", "60", "120", "180", "240", "300", "360", "-0", "359.9999", "720", "-360"])))
        comps = [h, draw(decimal(0, 100, allow_sign=False)) + "%", draw(decimal(0, 100, allow_sign=False)) + "%"]
        try:
            hv = float(h)
        except ValueError:
            hv = 0.0
        if hv < 0 or hv >= 360:
            feats.add("hue-wrap")
        if any("." in c for c in comps):
            feats.add("non-integer")
    name = {"rgb": "rgb", "rgbp": "rgb", "rgba": "rgba", "rgbap": "rgba", "hsl": "hsl", "hsla": "hsla"}[kind]
    fn = _case_mix(draw, name)
    if fn != name:
        feats.add("case")
    body = f"{w[1]}{comps[0]}{w[2]},{w[3]}{comps[1]}{w[4]},{w[5]}{comps[2]}{w[6]}"
    if name.endswith("a"):
        a = draw(alpha())
        body += f",{w[7]}{a}{w[8]}"
        try:
            if 0.0 < float(a) < 1.0:
                feats.add("alpha-in-(0,1)")
        except ValueError:
            pass
    s = f"{w[0]}{fn}({body}){w[9]}"
    return s, kind, sorted(feats)
