"""Colour generators: G-rgb, G-pair-near, G-spell. All randomness is drawn from Hypothesis."""
import math
from fractions import Fraction as F

from hypothesis import strategies as st

from vlib.oracles import css as ocss
from vlib.oracles import oklab as ook
from vlib.oracles import wcag as ow

KW_BY_RGB = {}
for _k, _v in ocss.KEYWORD_RGB.items():
    KW_BY_RGB.setdefault(_v, []).append(_k)
KW_LIST = sorted(ocss.KEYWORD_RGB)

_KW_RGBS = sorted(KW_BY_RGB)


def nearest_keyword(rgb):
    return min(_KW_RGBS, key=lambda k: (k[0] - rgb[0]) ** 2 + (k[1] - rgb[1]) ** 2 + (k[2] - rgb[2]) ** 2)


# ---- JSON-able encoding of python colour arguments -----------------------------------------------


def enc(x):
    """Python colour argument -> JSON-able."""
    if isinstance(x, tuple):
        return {"tuple": [enc(v) for v in x]}
    if isinstance(x, list):
        return {"list": [enc(v) for v in x]}
    if isinstance(x, float):
        if x != x:
            return {"float": "nan"}
        if x in (math.inf, -math.inf):
            return {"float": "inf" if x > 0 else "-inf"}
        return {"float": x.hex()}
    if isinstance(x, bool):
        return {"bool": x}
    if isinstance(x, bytes):
        return {"bytes": x.hex()}
    return x  # str, int, None


def dec(x):
    if isinstance(x, dict):
        if "tuple" in x:
            return tuple(dec(v) for v in x["tuple"])
        if "list" in x:
            return [dec(v) for v in x["list"]]
        if "float" in x:
            v = x["float"]
            return float(v) if v in ("nan", "inf", "-inf") else float.fromhex(v)
        if "bool" in x:
            return bool(x["bool"])
        if "bytes" in x:
            return bytes.fromhex(x["bytes"])
    return x


# ---- G-rgb -----------------------------------------------------------------------------------------

_ch = st.integers(0, 255)


def rgb():
    uniform = st.tuples(_ch, _ch, _ch)
    grey = _ch.map(lambda v: (v, v, v))
    extreme = st.tuples(st.sampled_from([0, 255]), _ch, _ch).flatmap(lambda t: st.permutations(list(t)).map(tuple))
    edge = st.tuples(st.sampled_from([0, 1, 2, 253, 254, 255]), st.sampled_from([0, 1, 127, 128, 254, 255]), _ch).flatmap(
        lambda t: st.permutations(list(t)).map(tuple)
    )
    named = st.sampled_from(KW_LIST).map(lambda k: ocss.KEYWORD_RGB[k])
    return st.one_of(uniform, uniform, uniform, grey, extreme, edge, named)


# ---- G-pair-near ------------------------------------------------------------------------------------


def _closest_on_segment(bg, e, target):
    best = None
    for i in range(0, 257):
        t = i / 256.0
        c = tuple(int(round(bg[k] + t * (e[k] - bg[k]))) for k in range(3))
        d = abs(ow.ratio(c, bg) - target)
        if best is None or d < best[0]:
            best = (d, c)
    return best[1]


def hairline(text, bg, thr, above):
    """Tune ONE channel of `text` (blue first - the smallest luminance weight, so the finest ratio steps) to the value whose
    ratio against `bg` is the closest one on the requested side of `thr`: pairs a hair above / below a threshold
    (typically within 0.003, one in ten within 0.0003), where a verdict computed with slightly different
    coefficients or a slightly different comparison flips."""
    best = None
    for k in (2, 0, 1):
        for v in range(256):
            c = list(text)
            c[k] = v
            c = tuple(c)
            r = ow.ratio(c, bg)
            if (r >= thr) if above else (r < thr):
                d = abs(r - thr)
                if best is None or d < best[0]:
                    best = (d, c)
        if best is not None and best[0] < 0.004:
            break
    return best[1] if best else text


def band(bg):
    L = ook.rgb_to_oklab(bg)[0]
    return "dark" if L < 0.35 else ("mid" if L < 0.65 else "light")


@st.composite
def pair_near(draw, thresholds=(3.0, 4.5, 7.0), delta_lo=-0.25, delta_hi=0.25, tight=0.03, hair=True):
    """(text_rgb, bg_rgb, meta) with contrast constructed near thr*(1+delta)."""
    bg = draw(rgb())
    thr = draw(st.sampled_from(thresholds))
    if draw(st.integers(0, 9)) < 7:
        lo, hi = max(delta_lo, -tight), min(delta_hi, tight)
        if lo > hi:
            lo, hi = delta_lo, delta_hi
        delta = draw(st.floats(lo, hi, allow_nan=False))
    else:
        delta = draw(st.floats(delta_lo, delta_hi, allow_nan=False))
    lighter = draw(st.booleans())
    kind = draw(st.integers(0, 2))
    if kind == 0:
        e = (255, 255, 255) if lighter else (0, 0, 0)
    else:
        c = draw(rgb())
        # push the endpoint to the chosen side of the background
        if lighter:
            e = tuple(max(c[k], bg[k]) for k in range(3))
            if e == bg:
                e = (255, 255, 255)
        else:
            e = tuple(min(c[k], bg[k]) for k in range(3))
            if e == bg:
                e = (0, 0, 0)
    text = _closest_on_segment(bg, e, thr * (1.0 + delta))
    nudge = draw(st.integers(-1, 1))
    if hair and draw(st.integers(0, 4)) == 0:
        above = True if delta_lo >= 0 else (False if delta_hi <= 0 else draw(st.booleans()))
        text = hairline(text, bg, thr, above)
        return text, bg, {"thr": thr, "delta": round(ow.ratio(text, bg) / thr - 1.0, 6), "lighter": lighter, "band": band(bg), "hair": True}
    if nudge:
        k = draw(st.integers(0, 2))
        tl = list(text)
        tl[k] = min(255, max(0, tl[k] + nudge))
        text = tuple(tl)
    return text, bg, {"thr": thr, "delta": round(delta, 4), "lighter": lighter, "band": band(bg)}


def settings3():
    """(large, very_readable, mode)"""
    return st.tuples(st.booleans(), st.booleans(), st.sampled_from([0, 1, 2]))


# ---- G-spell ------------------------------------------------------------------------------------------

_WS = st.text(alphabet=" \t\n", max_size=2)


def _case_mix(draw, s):
    flags = draw(st.lists(st.booleans(), min_size=len(s), max_size=len(s)))
    return "".join(ch.upper() if f else ch.lower() for ch, f in zip(s, flags))


def _hsl_string(rgb, digits):
    h, s, l = ocss.rgb_to_hsl_exact(rgb)

    def fmt(x):
        q = F(round(x * 10**digits), 10**digits)
        txt = f"{float(q):.{digits}f}"
        if "." in txt:
            txt = txt.rstrip("0").rstrip(".")
        return txt or "0"

    return fmt(h), fmt(s * 100), fmt(l * 100)


@st.composite
def spell(draw, rgb_value, kinds=None, allow_translucent=True):
    """A spelling of `rgb_value`. Returns (arg_encoded, kind, opaque_rgb_or_None).
    For opaque kinds the third item is the colour O-CSS reads from the spelling (== rgb_value except
    for hsl(), where the printed decimals may denote a neighbour: then that neighbour is the colour)."""
    r, g, b = rgb_value
    options = ["hex6", "HEX6", "hexmix", "nohash", "rgb", "rgbws", "tuple", "list", "hsl", "rgbpct"]
    if all(c % 17 == 0 for c in rgb_value):
        options += ["hex3", "hex3nohash"]
    if rgb_value in KW_BY_RGB:
        options += ["named", "named"]
    if allow_translucent:
        options += ["rgba1", "hsla1", "tuple4_1"]
    if kinds:
        options = [o for o in options if o in kinds] or ["hex6"]
    kind = draw(st.sampled_from(options))
    hx = f"{r:02x}{g:02x}{b:02x}"
    if kind == "hex6":
        return "#" + hx, kind, rgb_value
    if kind == "HEX6":
        return "#" + hx.upper(), kind, rgb_value
    if kind == "hexmix":
        return "#" + _case_mix(draw, hx), kind, rgb_value
    if kind == "nohash":
        s = _case_mix(draw, hx)
        if s.lower() in ocss.KEYWORDS:  # cannot happen for 6 hex digits, kept for safety
            s = "#" + s
        return s, kind, rgb_value
    if kind == "hex3":
        return "#" + _case_mix(draw, hx[0] + hx[2] + hx[4]), kind, rgb_value
    if kind == "hex3nohash":
        return _case_mix(draw, hx[0] + hx[2] + hx[4]), kind, rgb_value
    if kind == "rgb":
        return f"rgb({r}, {g}, {b})", kind, rgb_value
    if kind == "rgbws":
        w = [draw(_WS) for _ in range(8)]
        fn = _case_mix(draw, "rgb")
        return f"{w[0]}{fn}({w[1]}{r}{w[2]},{w[3]}{g}{w[4]},{w[5]}{b}{w[6]}){w[7]}", kind, rgb_value
    if kind == "rgbpct":
        # percentages with 4 decimals; the colour is whatever O-CSS reads (ties avoided)
        parts = [f"{float(F(c * 100, 255)):.4f}%" for c in rgb_value]
        s = f"rgb({parts[0]}, {parts[1]}, {parts[2]})"
        opts = ocss.read_rgb_set(s)
        if len(opts) != 1:
            return f"rgb({r}, {g}, {b})", "rgb", rgb_value
        return s, kind, next(iter(opts))
    if kind == "tuple":
        return enc((r, g, b)), kind, rgb_value
    if kind == "list":
        return enc([r, g, b]), kind, rgb_value
    if kind == "named":
        name = draw(st.sampled_from(KW_BY_RGB[rgb_value]))
        return _case_mix(draw, name), kind, rgb_value
    if kind in ("hsl", "hsla1"):
        digits = draw(st.sampled_from([2, 3, 4, 6]))
        h, s, l = _hsl_string(rgb_value, digits)
        fn = "hsl" if kind == "hsl" else "hsla"
        tail = "" if kind == "hsl" else ", " + draw(st.sampled_from(["1", "1.0", "1.00"]))
        txt = f"{fn}({h}, {s}%, {l}%{tail})"
        opts = ocss.read_rgb_set(f"hsl({h}, {s}%, {l}%)")
        if len(opts) != 1:
            return "#" + hx, "hex6", rgb_value
        return txt, kind, next(iter(opts))
    if kind == "rgba1":
        return f"rgba({r}, {g}, {b}, {draw(st.sampled_from(['1', '1.0']))})", kind, rgb_value
    if kind == "tuple4_1":
        return enc((r, g, b, draw(st.sampled_from([1, 1.0])))), kind, rgb_value
    raise AssertionError(kind)


ALPHAS_STR = ["0", "1", "0.0", "1.0", "0.5", ".5", "0.25", "0.75", "0.1", "0.9", "0.001", "0.999", "0.3333", "0.6667", "0.05", "0.95"]


@st.composite
def alpha_str(draw):
    if draw(st.booleans()):
        return draw(st.sampled_from(ALPHAS_STR))
    n = draw(st.integers(1, 6))
    v = draw(st.integers(0, 10**n))
    s = f"{v / 10**n:.{n}f}"
    if draw(st.booleans()) and s.startswith("0."):
        s = s[1:]
    return s


@st.composite
def alpha_float(draw):
    k = draw(st.integers(0, 5))
    if k == 0:
        return draw(st.sampled_from([0.0, 1.0, math.nextafter(0.0, 1.0), math.nextafter(1.0, 0.0), 0.5]))
    return draw(st.floats(0.0, 1.0, allow_nan=False))


@st.composite
def translucent(draw, fg_rgb, css4=False):
    """A translucent spelling of fg_rgb with alpha in [0,1]: returns (arg_encoded, kind, fg_exact(Fractions), alpha(Fraction)).
    css4=True adds the CSS Color 4 aliases of rgba() that the library accepts: rgb(r, g, b, a) and rgb(r g b / a)."""
    r, g, b = fg_rgb
    kind = draw(st.sampled_from(["rgba", "rgba", "hsla", "tuple4", "list4"] + (["rgb4-comma", "rgb4-slash"] if css4 else [])))
    if kind in ("rgb4-comma", "rgb4-slash"):
        a = draw(alpha_str())
        txt = f"rgb({r}, {g}, {b}, {a})" if kind == "rgb4-comma" else f"rgb({r} {g} {b} / {a})"
        return txt, kind, (F(r), F(g), F(b)), F(a)
    if kind == "rgba":
        a = draw(alpha_str())
        w = draw(_WS)
        fn = _case_mix(draw, "rgba")
        return f"{fn}({r},{w}{g}, {b} ,{w}{a})", kind, (F(r), F(g), F(b)), F(a)
    if kind == "hsla":
        a = draw(alpha_str())
        digits = draw(st.sampled_from([1, 2, 4]))
        h, s, l = _hsl_string(fg_rgb, digits)
        txt = f"hsla({h}, {s}%, {l}%, {a})"
        ex = ocss.parse(txt)
        return txt, kind, ex[:3], ex[3]
    a = draw(alpha_float())
    if draw(st.integers(0, 5)) == 0:
        a = draw(st.sampled_from([0, 1]))
    seq = (r, g, b, a)
    return enc(seq if kind == "tuple4" else list(seq)), kind, (F(r), F(g), F(b)), F(a)


@st.composite
def translucent_near(draw, text_rgb, bg_rgb, css4=False):
    """Translucent spelling whose composite over bg_rgb is (about) text_rgb, so constructed
    near-threshold pairs stay near their threshold. Returns (arg_encoded, kind)."""
    a_txt = draw(st.sampled_from(["0.5", "0.6", "0.75", "0.8", "0.9", "0.95", "0.99", "1", "1.0"]))
    a = float(a_txt)
    fg = tuple(int(min(255, max(0, round(bg_rgb[k] + (text_rgb[k] - bg_rgb[k]) / a)))) for k in range(3))
    kind = draw(st.sampled_from(["rgba", "hsla", "tuple4", "list4"] + (["rgb4-comma", "rgb4-slash"] if css4 else [])))
    r, g, b = fg
    if kind == "rgb4-comma":
        return f"rgb({r}, {g}, {b}, {a_txt})", kind
    if kind == "rgb4-slash":
        return f"rgb({r} {g} {b} / {a_txt})", kind
    if kind == "rgba":
        return f"rgba({r}, {g}, {b}, {a_txt})", kind
    if kind == "hsla":
        h, s, l = _hsl_string(fg, 3)
        return f"hsla({h}, {s}%, {l}%, {a_txt})", kind
    seq = (r, g, b, a)
    return enc(seq if kind == "tuple4" else list(seq)), kind
