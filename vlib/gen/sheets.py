"""G-sheet: generated stylesheets (text) with unique marker selectors `.rN`, custom properties, nesting and
carry-through material. Knobs switch whole sub-grammars off so that a confirmed finding can be excluded by
construction (and counted)."""
from hypothesis import strategies as st

from vlib.gen import colors as gc

DEFAULT_KNOBS = {
    "root_colors": True,     # colours declared directly in :root / html rules
    "fallback_vars": True,   # var(--x, fallback) uses
    "upper_props": True,     # COLOR: / Background-Color: spellings
    "shared_vars": False,    # one custom property referenced by several rules (known finding F6)
    "carry": True,           # @import/@font-face/@keyframes/... strings, url(), escapes, comments
    "nest": True,            # @media / @supports nesting
}

RELATED_NAMES = ["--text", "--text-muted", "--text-muted-2", "--brand", "--brand-dark", "--c", "--c-1", "--c-1-x", "--bg", "--bg-alt", "--a_b", "--a_b-c",
                 "--mainText", "--maintext", "--Brand", "--BG", "--textMuted"]  # custom property names are case-sensitive

CARRY_RULES = [
    '@charset "utf-8";',
    '@import url("base;{x}.css") screen and (orientation: landscape);',
    "@import 'theme.css';",
    '@namespace svg url(http://www.w3.org/2000/svg);',
    '@font-face { font-family: "My Font"; src: url(a.woff2) format("woff2"), url("b;c.woff") format("woff"); unicode-range: U+0025-00FF, u+4?? }',
    "@keyframes pulse { from { color: #777; opacity: 0 } 50.5% { color: red } to { color: #000; opacity: 1 } }",
    "@-webkit-keyframes spin { 0% { -webkit-transform: rotate(0deg) } 100% { -webkit-transform: rotate(360deg) } }",
    "@page :first { margin: 1in 2cm; color: #999 }",
    "@unknown-rule foo bar { baz: qux; color: #888 }",
    '@unknown-statement "str{ing}" 12px;',
    "@layer base, components;",
    "@counter-style thumbs { system: cyclic; symbols: \"\\1F44D\"; suffix: \" \" }",
    "@media print { @page { margin: 0 } }",
    ".empty { }",
    ".no-colour-here > li + li ~ p::first-line { margin: 0 auto; font: italic 12px/1.5 \"Helvetica Neue\", Arial, sans-serif }",
    'a[href$=".pdf"]::after { content: " (" attr(href) ")"; background: url("img;{1}.png") no-repeat 0 0 / 16px }',
    ".caf\\e9 .\\31 23 { width: calc(100% - 2 * var(--gap, 4px)); margin: -0.5em +1.5E3px }",
    "#ünï-çødé { grid-template-areas: \"a b\" \"c d\"; content: '}' \"{\" '/*' }",
    ".hack { _height: 1px; -moz-box-sizing: border-box; filter: progid:DXImageTransform.Microsoft.gradient(startColorstr='#80000000', endColorstr='#80000000') }",
    ".imp { margin: 0 ! important; padding: 0!IMPORTANT }",
    ":nth-child(2n+1):not(.x, .y) { z-index: -1 }",
    "::selection { text-shadow: none }",
]
COMMENTS = ["/* plain */", "/**/", "/* with { braces } and ; semicolons */", "/* ünï */", "/*! keep */", "/* color: #777 */", "/***/"]
UNRELATED_DECLS = [
    "margin: 0 auto", "font: 12px/1.5 \"Helvetica Neue\", sans-serif", "background: url(\"a;b{c}.png\") no-repeat", "content: \"}\"",
    "-webkit-transition: all .2s ease-in-out", "_height: 1px", "width: calc(100% - 2px)", "border: 1px solid #777", "outline-color: #777",
    "color-scheme: light dark", "background-image: linear-gradient(to right, rgba(0,0,0,.5), #fff 50%)", "margin: 0 /* inner */ auto",
    "text-decoration-color: currentColor", "z-index: 10 !important", "line-height: 1.5", "transform: translate(-50%, -50%) rotate(45deg)",
    "font-family: 'Fira Code', monospace", "quotes: '\\201C' '\\201D'", "border-radius: 50% / 10%", "padding: 0 0 0 0",
]
UNSUPPORTED = ["inherit", "currentColor", "transparent", "#11223344", "color-mix(in srgb, red 50%, blue)", "initial", "#12", "revert"]
IMPORTANT = [" !important", "!important", " ! important", " !IMPORTANT"]
SELECTOR_FORMS = [
    "{m}", "div{m}", "{m}:hover", "ul > li{m}", "{m} a[href^=\"http://x{{y}}\"]", "{m}::before", "#id{n}{m}", "{m}, {m}.alt", ".caf\\e9 {m}",
    "{m}[data-x='a;b']", ".ünï {m}", "{m}:nth-child(2n+1)", "{m}:not(.x)", "*{m}", "{m} + p ~ span", "body   {m}", "{m}.\\31 0",
]
MEDIA_PRELUDES = ["@media screen and (min-width: 600px)", "@media print", "@supports (display: grid)", "@MEDIA (max-width:40em)", "@supports not (color: lab(0% 0 0))",
                  "@media screen, print and (orientation:landscape)"]


@st.composite
def colour_value(draw, rgb=None, kinds=None):
    """A literal CSS colour value for a declaration (valid CSS; every spelling the library documents)."""
    c = rgb if rgb is not None else draw(gc.rgb())
    kinds = kinds or ["hex6", "HEX6", "hexmix", "hex3", "rgb", "rgbws", "rgbpct", "hsl", "named"]
    k = draw(st.integers(0, 11))
    if k == 0:
        # translucent text (composited over the rule's background by the tool)
        a = draw(st.sampled_from(["0.5", "0.8", ".9", "1", "0.35"]))
        return f"rgba({c[0]}, {c[1]}, {c[2]}, {a})"
    arg, kind, _ = draw(gc.spell(c, kinds=kinds, allow_translucent=False))
    return arg.strip() if isinstance(arg, str) else f"rgb({c[0]}, {c[1]}, {c[2]})"


@st.composite
def text_bg_pair(draw):
    """(text rgb, bg rgb) biased to the interesting outcomes: passing, fixable, unfixable."""
    k = draw(st.integers(0, 9))
    if k < 6:
        thr = draw(st.sampled_from([4.5, 7.0]))
        t, b, _ = draw(gc.pair_near(thresholds=(thr,), delta_lo=-0.5, delta_hi=0.2, tight=0.15))
        return t, b
    if k < 8:
        return draw(gc.rgb()), draw(st.sampled_from([(255, 255, 255), (0, 0, 0), (250, 250, 250), (17, 17, 17)]))
    return draw(gc.rgb()), draw(gc.rgb())


@st.composite
def sheet(draw, knobs=None, max_rules=7):
    kb = dict(DEFAULT_KNOBS)
    kb.update(knobs or {})
    n_rules = draw(st.integers(1, max_rules))
    counter = [0]
    var_defs = []   # (name, value)
    used_vars = set()
    colour_vars = []  # custom properties holding a colour that some rule's color declaration references directly
    var_counter = [0]

    def new_var(value, scope_hint=None):
        var_counter[0] += 1
        taken = {n for n, _ in var_defs}
        free = [n for n in RELATED_NAMES if n not in taken]
        if free and draw(st.booleans()):
            # names that are prefixes / hyphenated extensions of one another (--text, --text-muted, ...) or differ only in
            # letter case: once one of a family is in use, its relatives are preferred
            kin = [n for n in free if any(n != t and (n.lower().startswith(t.lower()) or t.lower().startswith(n.lower())) for t in taken)]
            name = draw(st.sampled_from(kin if kin and draw(st.integers(0, 3)) else free))
        else:
            name = f"--v{var_counter[0]}" + draw(st.sampled_from(["", "-text", "_c", "-Ünï".lower()]))
        var_defs.append((name, value))
        return name

    def imp():
        return draw(st.sampled_from(IMPORTANT)) if draw(st.integers(0, 7)) == 0 else ""

    def color_decl_value(rgb):
        """value for a color declaration + how it is provided"""
        k = draw(st.integers(0, 19))
        if k < 11:
            return draw(colour_value(rgb))
        if k < 14:
            # through a custom property (optionally a chain)
            if kb["shared_vars"] and var_defs and draw(st.booleans()):
                name = draw(st.sampled_from([n for n, _ in var_defs]))
            elif kb["shared_vars"] and colour_vars and draw(st.integers(0, 2)) == 0:
                # an ALIAS of a custom property that another rule already uses directly (--link: var(--base)). Only in the
                # shared-property campaign: the tool rewrites the base in place for the other rule and reads the alias
                # through it afterwards (known finding F6), so the main campaign keeps clear of it
                name = new_var(f"var({draw(st.sampled_from(colour_vars))})")
            else:
                name = new_var(draw(colour_value(rgb)))
                colour_vars.append(name)
                if draw(st.integers(0, 4)) == 0:
                    name = new_var(f"var({name})")
            used_vars.add(name)
            return f"var({name})"
        if k < 16 and kb["fallback_vars"]:
            if draw(st.booleans()):
                return f"var(--undefined{draw(st.integers(0, 3))}, {draw(colour_value(rgb, kinds=['hex6', 'rgb', 'named', 'hex3']))})"
            name = new_var(draw(colour_value(rgb)))
            used_vars.add(name)
            return f"var({name}, {draw(colour_value(kinds=['hex6', 'named']))})"
        if k < 17:
            return f"var(--undefined{draw(st.integers(0, 3))})"
        if k < 18:
            name = new_var(draw(st.sampled_from(["4px", "bold", "1px solid", "\"str\""])))
            return f"var({name})"
        if k < 19:
            return draw(st.sampled_from(UNSUPPORTED))
        return draw(colour_value(rgb))

    def style_rule(indent=""):
        counter[0] += 1
        n = counter[0]
        m = f".r{n}"
        sel = draw(st.sampled_from(SELECTOR_FORMS)).replace("{m}", m).replace("{n}", str(n)).replace("{{", "{").replace("}}", "}")
        t_rgb, b_rgb = draw(text_bg_pair())
        decls = []
        has_color = draw(st.integers(0, 9)) < 9
        has_bg = draw(st.integers(0, 9)) < 6
        pname = "color"
        if kb["upper_props"] and draw(st.integers(0, 9)) == 0:
            pname = draw(st.sampled_from(["COLOR", "Color", "cOlOr"]))
        if has_color:
            if draw(st.integers(0, 5)) == 0:
                decls.append(f"color: {draw(colour_value())}")  # an earlier declaration that loses the cascade
            decls.append(f"{pname}: {color_decl_value(t_rgb)}{imp()}")
        if has_bg:
            bname = "background-color"
            if kb["upper_props"] and draw(st.integers(0, 9)) == 0:
                bname = draw(st.sampled_from(["BACKGROUND-COLOR", "Background-Color"]))
            if draw(st.integers(0, 6)) == 0:
                decls.append(f"background-color: {draw(colour_value())}")
            if draw(st.integers(0, 6)) == 0:
                name = new_var(draw(colour_value(b_rgb)))
                decls.append(f"{bname}: var({name})")
            else:
                decls.append(f"{bname}: {draw(colour_value(b_rgb, kinds=['hex6', 'HEX6', 'hex3', 'rgb', 'named', 'hsl', 'rgbws']))}{imp()}")
        for _ in range(draw(st.integers(0, 3))):
            decls.append(draw(st.sampled_from(UNRELATED_DECLS)))
        decls = list(draw(st.permutations(decls)))
        if kb["carry"] and decls and draw(st.integers(0, 4)) == 0:
            decls.insert(draw(st.integers(0, len(decls))), draw(st.sampled_from(COMMENTS)))
        style = draw(st.integers(0, 3))
        parts = []
        for d in decls:
            parts.append(d if d.startswith("/*") else d + ";")
        if parts and not parts[-1].startswith("/*") and draw(st.booleans()):
            parts[-1] = parts[-1][:-1]  # optional last semicolon
        if draw(st.integers(0, 9)) == 0:
            parts.insert(0, ";")
        if style == 0:
            body = " ".join(parts)
            return f"{indent}{sel} {{ {body} }}"
        if style == 1:
            return f"{indent}{sel}{{{''.join(parts)}}}"
        inner = "".join(f"\n{indent}  {p}" for p in parts)
        return f"{indent}{sel} {{{inner}\n{indent}}}"

    def block(depth, budget):
        items = []
        while budget[0] > 0:
            k = draw(st.integers(0, 9))
            if kb["nest"] and depth < 3 and k < 3 and budget[0] > 0:
                prelude = draw(st.sampled_from(MEDIA_PRELUDES))
                inner = block(depth + 1, budget)
                pad = "  " * depth
                items.append(f"{pad}{prelude} {{\n" + "\n".join(inner) + f"\n{pad}}}")
            else:
                budget[0] -= 1
                items.append(style_rule("  " * depth))
            if kb["carry"] and draw(st.integers(0, 3)) == 0:
                extra = draw(st.sampled_from(CARRY_RULES + COMMENTS))
                if depth > 0 and extra.startswith(("@charset", "@import", "@namespace")):
                    extra = draw(st.sampled_from(COMMENTS))
                items.append("  " * depth + extra)
            if depth > 0 and draw(st.integers(0, 2)) == 0:
                break
        return items

    budget = [n_rules]
    body_items = block(0, budget)
    # :root / html rules holding the custom properties (each name defined once), anywhere at top level
    roots = []
    if var_defs or draw(st.integers(0, 3)) == 0:
        defs = [f"{n}: {v}" for n, v in var_defs]
        extra = draw(st.lists(st.sampled_from(["--gap: 4px", "--font: \"Fira Code\", monospace", "--unused: #123456", "font-size: 16px", "--empty:",
                                                 "--page-bg: #fdfdfd", "--page-bg: #0b0b0b", "--page-bg: rgb(240, 230, 140)", "--surface: #eeeeee"]), max_size=2, unique=True))
        defs = list(draw(st.permutations(defs + extra)))
        split = draw(st.integers(0, len(defs)))
        groups = [g for g in (defs[:split], defs[split:]) if g]
        for gi, g in enumerate(groups):
            seln = draw(st.sampled_from([":root", ":root", "html"]))
            decls = list(g)
            if kb["root_colors"] and gi == 0 and draw(st.integers(0, 2)) == 0:
                t_rgb, b_rgb = draw(text_bg_pair())
                decls.insert(draw(st.integers(0, len(decls))), f"color: {draw(colour_value(t_rgb))}")
                if draw(st.booleans()):
                    decls.insert(draw(st.integers(0, len(decls))), f"background-color: {draw(colour_value(b_rgb, kinds=['hex6', 'rgb', 'named']))}")
            if kb["carry"] and draw(st.integers(0, 3)) == 0:
                decls.insert(draw(st.integers(0, len(decls))), draw(st.sampled_from(COMMENTS)))
            txt = "".join(f"\n  {d}" + ("" if d.startswith("/*") else ";") for d in decls)
            roots.append(f"{seln} {{{txt}\n}}")
    # theme variants: compound :root / html selectors re-defining the same properties AFTER the plain block. They apply only
    # when the class / attribute is present, so for the plain document the plain :root / html values hold.
    variants = []
    if var_defs and draw(st.integers(0, 3)) == 0:
        vsel = draw(st.sampled_from([':root[data-theme="dark"]', ":root.dark", "html.sepia", "html[data-theme=dark]", ":root:not(.light)", "html#app"]))
        names = draw(st.lists(st.sampled_from([n for n, _ in var_defs]), min_size=1, max_size=3, unique=True))
        body = "".join(f"\n  {n}: {draw(colour_value())};" for n in names)
        variants.append(f"{vsel} {{{body}\n}}")
    # place root rules: before everything (usual) or somewhere else
    items = list(body_items)
    for r in roots:
        pos = 0 if draw(st.integers(0, 3)) else draw(st.integers(0, len(items)))
        items.insert(pos, r)
    for v in variants:
        # after the last plain root block (so a tool that wrongly treats it as a variable scope lets it win)
        last = max([i for i, it in enumerate(items) if it in roots], default=-1)
        items.insert(draw(st.integers(last + 1, len(items))), v)
    if kb["carry"]:
        head = []
        if draw(st.integers(0, 3)) == 0:
            head.append('@charset "utf-8";')
        if draw(st.integers(0, 3)) == 0:
            head.append(draw(st.sampled_from(["@import url(\"base;{x}.css\") screen;", "@import 'theme.css';"])))
        items = head + items
    sep = draw(st.sampled_from(["\n", "\n\n", " ", "\n"]))
    css = sep.join(items) + draw(st.sampled_from(["", "\n", "\n\n"]))
    return {"css": css, "knobs": kb}


@st.composite
def cli_settings(draw):
    s = {"mode": draw(st.sampled_from([0, 1, 1, 2])), "premium": draw(st.booleans())}
    k = draw(st.integers(0, 9))
    if k < 4:
        s["default_bg"] = None
    elif k < 6:
        s["default_bg"] = draw(st.sampled_from(["white", "#ffffff", "#fafafa", "rgb(240, 248, 255)", "ivory"]))
    elif k < 8:
        s["default_bg"] = draw(st.sampled_from(["black", "#111111", "#222", "rgb(20, 20, 40)", "navy"]))
    else:
        c = draw(gc.rgb())
        s["default_bg"] = f"#{c[0]:02x}{c[1]:02x}{c[2]:02x}"
    if draw(st.integers(0, 11)) == 0:
        # the option is resolved like a declaration value, so it may reference a custom property of the file
        # (names no rule uses for its text colour: a property that is rewritten for an adjusted rule AND feeds the default
        #  background is the shared-property situation of known finding F6)
        s["default_bg"] = draw(st.sampled_from(["var(--page-bg, #ffffff)", "var(--page-bg, #101010)", "var(--xb, #fafafa)", "var(--page-bg, white)", "var(--surface, #fff)", "var(--page-bg)"]))
    return s
