"""G-junk: near-miss CSS strings and short sequences of arbitrary scalars."""
import math

from hypothesis import strategies as st

FRAGMENTS = [
    "rgb(", "rgba(", "hsl(", "hsla(", "rgb", "hsl", "RGB(", "HSLA(", "#", ")", "(", ",", " ", "%", "deg", "rad", "turn", "/", "-", "+", ".",
    "var(--x)", "var(--x, #fff)", "inherit", "transparent", "currentcolor", "currentColor", "none", "initial", "color-mix(in srgb, red, blue)",
    "0", "1", "255", "256", "100%", "50%", "0.5", ".5", "1e3", "1e-7", "-1", "360", "nan", "inf", "-inf", "NaN", "Infinity",
    "red", "blue", "rebeccapurple", "grey", "fff", "ffffff", "#fff", "#ffffff", "#ffff", "#ffffffff", "#ggg", "0x10", "ff", "abc", "abcdef", "aaaaaa",
    "\x00", "\t", "\n", " ", "٠", "١٢٣", "１", "−", "​", "é", "🍫", "'", '"', ";", "{", "}", "<", ">", "&",
    "rgb(1,2,3)", "rgb(1 2 3)", "rgb(1,2,3,4,5)", "hsl(120, 50%, 50%)", "hsl(120 50% 50%)", "hsla(120, 50%, 50%, 0.5)", "hsla(120 50% 50% / 0.5)",
    "rgb(10%, 20%, 30%)", "1, 2, 3", "(1, 2, 3)", "1 2 3", "rgb 1 2 3",
]


def near_miss():
    frag = st.sampled_from(FRAGMENTS)
    digits = st.integers(-400, 400).map(str)
    floats = st.floats(allow_nan=False, allow_infinity=False, width=32).map(repr)
    return st.lists(st.one_of(frag, frag, frag, digits, floats, st.text(max_size=3)), min_size=0, max_size=9).map("".join)


def func_with_args():
    """function-call shaped strings with arbitrary argument tokens"""
    tok = st.one_of(
        st.integers(-400, 400).map(str),
        st.floats(-1e4, 1e4, allow_nan=False).map(lambda v: f"{v:.4g}"),
        st.integers(-200, 200).map(lambda v: f"{v}%"),
        st.sampled_from(["", " ", "nan", "inf", "-", "+", ".", "%", "e", "1e400", "1e-400", "١٢٣", "１２", "0x1f", "1_0", "--", "1..2", "1.2.3", "50 %", "none", "calc(1+2)", "9" * 30]),
    )
    sep = st.sampled_from([",", ", ", " ", " / ", ",,", ";", ""])
    name = st.sampled_from(["rgb", "rgba", "hsl", "hsla", "RGB", "Hsl", "rgb ", "hsv", "lab", "oklch", ""])
    return st.tuples(name, st.lists(tok, max_size=6), sep, st.sampled_from([")", "", "))", ") x", ")%"])).map(
        lambda t: f"{t[0]}({t[2].join(t[1])}{t[3]}"
    )


def hexlike():
    """'#'-prefixed (or bare) runs of 1-9 characters over hex digits and the characters int()/float() are lenient about"""
    body = st.text(alphabet="0123456789abcdefABCDEF" * 3 + "gG-+ ._xX\t", min_size=1, max_size=9)
    sized = st.sampled_from([3, 6, 6, 4, 8]).flatmap(lambda n: st.text(alphabet="0123456789abcdef" * 2 + "-+ _.gx", min_size=n, max_size=n))
    return st.tuples(st.sampled_from(["#", "#", "", " #", "##"]), st.one_of(body, sized, sized)).map("".join)


CONFUSABLE = {"s": ["ſ"], "fi": ["ﬁ"], "fl": ["ﬂ"], "k": ["K"], "i": ["ı", "İ", "ⅰ"], "ss": ["ß"], "a": ["ａ", "а"], "e": ["ｅ", "е"], "o": ["ο", "ｏ"], "d": ["ⅾ"], "l": ["ⅼ"], "m": ["ⅿ"], "c": ["ⅽ", "с"]}


@st.composite
def keyword_confusables(draw):
    """a CSS colour keyword (or function name) with one or two characters replaced by Unicode characters that lower(),
    casefold() or NFKC map onto the ASCII original (long s, ligatures, Kelvin sign, full-width, Roman numerals, Cyrillic)"""
    from vlib.oracles.css import KEYWORDS

    word = draw(st.sampled_from(sorted(KEYWORDS) + ["rgb(1,2,3)", "hsl(0,0%,50%)", "transparent", "inherit"]))
    for _ in range(draw(st.integers(1, 2))):
        keys = [k for k in CONFUSABLE if k in word]
        if not keys:
            break
        k = draw(st.sampled_from(keys))
        word = word.replace(k, draw(st.sampled_from(CONFUSABLE[k])), 1)
    if draw(st.booleans()):
        word = word.upper() if draw(st.booleans()) else word.title()
    return word


_NEST_OPEN = ["var(--x, ", "var(--x,", "calc(", "rgb(", "rgba(", "hsl(", "color-mix(in srgb, ", "(", "[", "{", "light-dark(", "env(x, ", "url("]


@st.composite
def deep_nesting(draw):
    """A CSS-looking value nested far deeper than the interpreter's recursion limit (var(--x, var(--x, ... #fff ...))): a
    parser that resolves fallbacks, groups or functions recursively must still report, not raise RecursionError."""
    opener = draw(st.sampled_from(_NEST_OPEN))
    depth = draw(st.sampled_from([40, 400, 1100, 3000, 12000]))
    core = draw(st.sampled_from(["#fff", "red", "0", "", "1, 2, 3"]))
    closer = {"(": ")", "[": "]", "{": "}"}[opener.strip()[-1] if opener.strip()[-1] in "([{" else ("(" if "(" in opener else "(")]
    close_n = depth if draw(st.integers(0, 3)) else draw(st.sampled_from([0, depth - 1]))
    return opener * depth + core + closer * close_n


def strings():
    return st.one_of(near_miss(), near_miss(), func_with_args(), hexlike(), keyword_confusables(), st.text(max_size=20), st.sampled_from(FRAGMENTS),
                     st.integers(0, 5).flatmap(lambda k: deep_nesting() if k == 0 else near_miss()))


def scalars():
    big = st.integers(-(2**63) + 1, 2**63 - 1)
    small = st.integers(-3, 300)
    fl = st.one_of(
        st.floats(allow_nan=True, allow_infinity=True),
        st.floats(0.0, 1.0),
        st.floats(-1.0, 400.0, allow_nan=False),
        st.sampled_from([math.nan, math.inf, -math.inf, 5e-324, -0.0, 0.0, 1.0, 0.5, 255.0, 255.5, 360.0, 1e308]),
    )
    numeric_str = st.one_of(small.map(str), st.floats(-10, 300, allow_nan=False).map(lambda v: f"{v:.3f}"), st.integers(-50, 150).map(lambda v: f"{v}%"),
                            st.sampled_from(["", " ", "1e2", "nan", "inf", "-inf", "1e999", "1e999%", "inf%", "0x10", "١٢", "1_000", " 12 ", "+5", "-0"]))
    return st.one_of(small, small, big, fl, fl, numeric_str, st.text(max_size=6), st.none(), st.booleans())


def sequences():
    """lists/tuples of any short length over numbers, numeric/arbitrary strings, None, bools (the stated domain:
    no nested sequences, no bytes)."""
    inner = st.lists(scalars(), min_size=0, max_size=6)
    three_four = st.lists(scalars(), min_size=3, max_size=4)
    return st.one_of(inner, inner.map(tuple), three_four, three_four.map(tuple), three_four.map(tuple))


def anything():
    return st.one_of(strings(), strings(), sequences())
