"""Operations of the C15 purity check. `run_op(op)` executes one JSON-able operation against the library
and returns a JSON-able result. Run as a module it evaluates one operation in this (fresh) interpreter:

    python -m vlib.c15ops '<json op>'      -> prints the JSON result
"""
import json
import os
import sys

from vlib.gen.colors import dec
from vlib.sandbox import Capture, Scratch

SHEETS = {
    "plain": ".a { color: #777777; }\n.b { color: #000000; background-color: #ffffff; }\n.c { color: #8a8a8a; background-color: #fafafa; }\n",
    "vars": ":root { --fg: #888888; --bg: #ffffff; }\n.a { color: var(--fg); background-color: var(--bg); }\n@media (min-width: 10px) { .m { color: #999999; } }\n",
    "dark": ".d { color: #666666; background-color: #111111; }\n.e { color: rgb(200, 30, 30); background-color: #202040; }\n.f { color: hsl(120, 100%, 25%); }\n",
}


def _norm(x):
    if isinstance(x, tuple):
        return {"tuple": [_norm(v) for v in x]}
    if isinstance(x, list):
        return [_norm(v) for v in x]
    return x


def run_op(op):
    from cm_colors import ColorPair, make_readable_bulk

    kind = op["op"]
    if kind == "readable":
        return ColorPair(dec(op["t"]), dec(op["b"]), op["large"]).is_readable
    if kind == "make":
        extra = {}
        if op.get("show") or op.get("save"):
            with Scratch("c15_"):
                with Capture():
                    r = ColorPair(dec(op["t"]), dec(op["b"]), op["large"]).make_readable(mode=op["mode"], very_readable=op["very"], show=bool(op.get("show")), save_report=bool(op.get("save")))
            return _norm(r)
        return _norm(ColorPair(dec(op["t"]), dec(op["b"]), op["large"]).make_readable(mode=op["mode"], very_readable=op["very"]))
    if kind == "bulk":
        entries = []
        for e in op["entries"]:
            entries.append((dec(e["t"]), dec(e["b"])) if e.get("large") is None else (dec(e["t"]), dec(e["b"]), e["large"]))
        return _norm(make_readable_bulk(entries, mode=op["mode"], very_readable=op["very"]))
    if kind == "cli":
        from click.testing import CliRunner

        from cm_colors.cli.main import main as cli_main

        with Scratch("c15cli_") as sc:
            with open(os.path.join(sc.path, "s.css"), "w", encoding="utf-8") as f:
                f.write(SHEETS[op["sheet"]])
            args = ["s.css", "--mode", str(op["mode"])] + (["--premium"] if op["premium"] else [])
            res = CliRunner().invoke(cli_main, args)
            outp = os.path.join(sc.path, "s_cm.css")
            content = open(outp, encoding="utf-8").read() if os.path.exists(outp) else None
            report = os.path.exists(os.path.join(sc.path, "cm_colors_report.html"))
            out = res.output.replace(os.path.realpath(sc.path), "<CWD>").replace(sc.path, "<CWD>")
            return {"exit": res.exit_code, "stdout": out, "css": content, "report": report}
    raise ValueError(kind)


def op_key(op):
    return json.dumps(op, sort_keys=True)


if __name__ == "__main__":
    print(json.dumps(run_op(json.loads(sys.argv[1]))))
