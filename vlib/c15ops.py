"""Operations of the C15 purity check. `run_op(op)` executes one JSON-able operation against the library
and returns a JSON-able result. Run as a module it evaluates one operation in this (fresh) interpreter:

    python -m vlib.c15ops '<json op>'      -> prints the JSON result
"""
import json
import os
import sys

from vlib.gen.colors import dec
from vlib.sandbox import Capture, Scratch

SHEETS = {
    "plain": ".a { color: #777777; }\n.b { color: #000000; background-color: #ffffff; }\n.c { color: #8a8a8a; background-color: #fafafa; }\n",
    "vars": ":root { --fg: #888888; --bg: #ffffff; }\n.a { color: var(--fg); background-color: var(--bg); }\n@media (min-width: 10px) { .m { color: #999999; } }\n",
    "dark": ".d { color: #666666; background-color: #111111; }\n.e { color: rgb(200, 30, 30); background-color: #202040; }\n.f { color: hsl(120, 100%, 25%); }\n",
}


def _norm(x):
    if isinstance(x, tuple):
        return {"tuple": [_norm(v) for v in x]}
    if isinstance(x, list):
        return [_norm(v) for v in x]
    return x


def run_op(op):
    from cm_colors import ColorPair, make_readable_bulk

    kind = op["op"]
    if kind == "readable":
        return ColorPair(dec(op["t"]), dec(op["b"]), op["large"]).is_readable
    if kind == "make":
        extra = {}
        if op.get("show") or op.get("save"):
            with Scratch("c15_"):
                with Capture():
                    r = ColorPair(dec(op["t"]), dec(op["b"]), op["large"]).make_readable(mode=op["mode"], very_readable=op["very"], show=bool(op.get("show")), save_report=bool(op.get("save")))
            return _norm(r)
        return _norm(ColorPair(dec(op["t"]), dec(op["b"]), op["large"]).make_readable(mode=op["mode"], very_readable=op["very"]))
    if kind == "bulk":
        entries = []
        for e in op["entries"]:
            entries.append((dec(e["t"]), dec(e["b"])) if e.get("large") is None else (dec(e["t"]), dec(e["b"]), e["large"]))
        return _norm(make_readable_bulk(entries, mode=op["mode"], very_readable=op["very"]))
    if kind == "valid":
        from cm_colors import Color

        out = []
        for x in op["xs"]:
            c = Color(dec(x))
            out.append([c.is_valid, list(c.rgb) if c.rgb else None])
        return out
    if kind == "cli":
        from click.testing import CliRunner

        from cm_colors.cli.main import main as cli_main

        with Scratch("c15cli_") as sc:
            if op["sheet"] == "none":
                target = "."  # a directory without any stylesheet
            else:
                target = "s.css"
                with open(os.path.join(sc.path, "s.css"), "w", encoding="utf-8") as f:
                    f.write(SHEETS[op["sheet"]])
            args = [target, "--mode", str(op["mode"])] + (["--premium"] if op["premium"] else []) + (["--default-bg", op["default_bg"]] if op.get("default_bg") else [])
            res = CliRunner().invoke(cli_main, args)
            outp = os.path.join(sc.path, "s_cm.css")
            content = open(outp, encoding="utf-8").read() if os.path.exists(outp) else None
            report = os.path.exists(os.path.join(sc.path, "cm_colors_report.html"))
            out = res.output.replace(os.path.realpath(sc.path), "<CWD>").replace(sc.path, "<CWD>")
            return {"exit": res.exit_code, "stdout": out, "css": content, "report": report}
    raise ValueError(kind)


def op_key(op):
    return json.dumps(op, sort_keys=True)


def cold_threads(ops, nthreads=8):
    """The very first library calls of this interpreter, made concurrently from several threads released by a barrier."""
    import threading

    # importing is not "first use": modules are loaded up front so that the import lock does not line the threads up
    import cm_colors  # noqa: F401
    from cm_colors.core import color_metrics, color_parser, contrast, conversions

    def primitives(k):
        c1, c2 = (k * 29 % 256, 17, 200), (40, k * 53 % 256, 90)
        return [color_metrics.calculate_delta_e_2000(c1, c2), list(conversions.rgb_to_lab(c1)), list(conversions.rgb_to_oklch(c2)),
                contrast.calculate_relative_luminance(c1), list(color_parser.parse_color_to_rgb("rebeccapurple")),
                list(color_parser.parse_color_to_rgb(f"hsl({k * 40}, 50%, 40%)")), list(conversions.oklch_to_rgb((0.5, 0.1, k * 45.0)))]

    results = [None] * len(ops)
    prim = [None] * nthreads
    errors = []
    barrier = threading.Barrier(nthreads)
    sys.setswitchinterval(1e-6)

    def worker(k):
        try:
            barrier.wait(timeout=30)
            prim[k] = primitives(k)  # the very first calls into the library, all threads at once
            for i in range(k, len(ops), nthreads):
                results[i] = run_op(ops[i])
        except Exception as e:  # noqa: BLE001
            errors.append(f"{type(e).__name__}: {e}")

    ths = [threading.Thread(target=worker, args=(k,)) for k in range(nthreads)]
    for t in ths:
        t.start()
    for t in ths:
        t.join(timeout=300)
    for k in range(nthreads):  # the same primitive calls again, now sequentially: they must agree
        again = primitives(k)
        if prim[k] is not None and prim[k] != again:
            errors.append(f"primitive results of thread {k} differ from the sequential re-run: {prim[k]} vs {again}")
    return {"results": results, "errors": errors}


if __name__ == "__main__":
    if sys.argv[1] == "--cold":
        print(json.dumps(cold_threads(json.loads(sys.argv[2]))))
    else:
        print(json.dumps(run_op(json.loads(sys.argv[1]))))
