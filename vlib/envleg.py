"""Environment leg: a fixed small workload executed in a CHILD interpreter under a given locale / interpreter flags.
The parent runs it twice (UTF-8 locale vs. the C locale with UTF-8 mode and locale coercion switched off) and demands
identical, error-free results: nothing the library writes may depend on the platform's default text encoding.

    python -m vlib.envleg api|cli      -> prints one JSON document
"""
import json
import os
import sys

SHEET = (
    '@charset "utf-8";\n/* café → 日本 */\n:root { --ink: #777777; }\n'
    '.título.r3::after { content: "» üñï"; color: var(--ink); }\n'
    '.r1 { color: #888888; background-color: #ffffff; font-family: "ヒラギノ", serif; }\n'
    '@media print { .r2 { color: rgb(150, 150, 150); } }\n'
)
PAIRS = [("#777777", "#ffffff"), ("hsl(210, 40%, 45%)", "#fafafa"), ("rgba(0, 0, 0, 0.45)", "#b7439e"), ((120, 130, 140), (250, 250, 250)), ("#cfff04", "white")]


def api_workload():
    from cm_colors import ColorPair, make_readable_bulk
    from vlib.sandbox import Capture, Scratch

    if os.environ.get("VERIF_WARN_ERROR"):
        # every warning raised from here on is an error (third-party import-time warnings are already behind us)
        import warnings

        import rich.console  # noqa: F401
        import tinycss2  # noqa: F401
        from cm_colors.core import visualiser  # noqa: F401

        warnings.simplefilter("error")

    out = {"results": [], "errors": []}
    for t, b in PAIRS:
        for mode in (0, 1):
            plain = ColorPair(t, b).make_readable(mode=mode)
            for show, save in ((True, False), (False, True), (True, True)):
                with Scratch("env_") as sc:
                    with Capture() as cap:
                        try:
                            res = ColorPair(t, b).make_readable(mode=mode, show=show, save_report=save)
                            err = None
                        except Exception as e:  # noqa: BLE001
                            res, err = None, f"{type(e).__name__}: {e}"
                    files = sorted(os.listdir(sc.path))
                    sizes = {f: os.path.getsize(os.path.join(sc.path, f)) for f in files}
                    utf8 = True
                    for f in files:
                        try:
                            open(os.path.join(sc.path, f), "rb").read().decode("utf-8")
                        except UnicodeDecodeError:
                            utf8 = False
                key = [str(t), str(b), mode, show, save]
                if err:
                    out["errors"].append({"call": key, "error": err})
                elif res != plain:
                    out["errors"].append({"call": key, "error": f"returned {res!r}, plain call returns {plain!r}"})
                elif save and (files != ["cm_colors_quick_report.html"] or not sizes.get("cm_colors_quick_report.html") or not utf8):
                    out["errors"].append({"call": key, "error": f"report files {sizes}, utf-8 decodable: {utf8}"})
                out["results"].append([key, [res[0] if not isinstance(res[0], tuple) else list(res[0]), res[1]] if res else None])
    from cm_colors.core.color_metrics import calculate_delta_e_2000
    from cm_colors.core.conversions import rgb_to_lab, rgb_to_oklch

    try:
        out["results"].append(["metrics", [round(calculate_delta_e_2000((200, 30, 30), (20, 140, 200)), 9), [round(v, 9) for v in rgb_to_lab((12, 200, 77))],
                                           [round(v, 9) for v in rgb_to_oklch((12, 200, 77))]]])
    except Exception as e:  # noqa: BLE001
        out["errors"].append({"call": "metrics", "error": f"{type(e).__name__}: {e}"})
    with Scratch("envb_") as sc:
        with Capture():
            try:
                r = make_readable_bulk([(t, b) for t, b in PAIRS], save_report=True)
                out["results"].append(["bulk", [[x[0] if not isinstance(x[0], tuple) else list(x[0]), x[1]] for x in r]])
            except Exception as e:  # noqa: BLE001
                out["errors"].append({"call": "bulk save_report", "error": f"{type(e).__name__}: {e}"})
        f = os.path.join(sc.path, "cm_colors_bulk_report.html")
        if not os.path.exists(f) or os.path.getsize(f) == 0:
            out["errors"].append({"call": "bulk save_report", "error": "report missing or empty"})
    return out


def cli_workload():
    import hashlib

    from vlib import cli

    run = cli.run_cli({"site/estilo.css": SHEET}, "site", {"mode": 1})
    texts = {k: hashlib.blake2b(v, digest_size=12).hexdigest() for k, v in run["texts"].items() if k.endswith(".css")}
    outp = run["texts"].get("site/estilo_cm.css")
    return {"exit": run["exit"], "stderr": run["stderr"][-300:], "counts": {k: run["counts"][k] for k in ("readable", "adjusted", "attention")},
            "files": texts, "output": outp.decode("utf-8", "replace") if outp is not None else None,
            "cards": [[c["selector"], c["codes"]] for c in run["cards"]]}


def run_child(which, c_locale, warn_error=False):
    import subprocess

    from vlib.runner import VERIF_DIR

    env = dict(os.environ)
    env["PYTHONPATH"] = os.pathsep.join([os.path.join(env.get("VERIF_REPO", "/repo"), "src"), VERIF_DIR])
    env["PYTHONIOENCODING"] = "utf-8"
    for k in ("LC_ALL", "LC_CTYPE", "LANG", "LANGUAGE"):
        env.pop(k, None)
    if c_locale:
        env.update({"LC_ALL": "C", "LANG": "C", "PYTHONCOERCECLOCALE": "0", "PYTHONUTF8": "0"})
    else:
        env.update({"LC_ALL": "C.UTF-8", "LANG": "C.UTF-8", "PYTHONUTF8": "1"})
    if warn_error:
        env["VERIF_WARN_ERROR"] = "1"
    p = subprocess.run([sys.executable, "-m", "vlib.envleg", which], env=env, capture_output=True, text=True, encoding="utf-8", cwd=VERIF_DIR, timeout=900)
    if p.returncode != 0:
        return {"__crash__": p.stderr[-500:]}
    return json.loads(p.stdout.strip().splitlines()[-1])


def api_env_judge(case):
    """Shared judge of the API environment leg (used by C06, C11, C17): the fixed workload in three child interpreters
    (UTF-8 locale; LC_ALL=C with UTF-8 mode and coercion off; every warning an error) must be error-free and identical."""
    from vlib.runner import HarnessError, Violation

    ref = run_child("api", False)
    if "__crash__" in ref:
        raise HarnessError(f"environment leg crashed under the UTF-8 locale: {ref['__crash__']}")
    if ref.get("errors"):
        raise Violation("preview-or-report-fails", f"under the UTF-8 locale: {ref['errors'][:2]}")
    c = run_child("api", True)
    if "__crash__" in c:
        raise Violation("locale-dependent:crash", f"the workload crashes under LC_ALL=C (preferred encoding ASCII): {c['__crash__'][-300:]}")
    if c.get("errors"):
        raise Violation("locale-dependent:preview-or-report", f"under LC_ALL=C (preferred encoding {c.get('preferred_encoding')}): {c['errors'][:2]}")
    if c["results"] != ref["results"]:
        raise Violation("locale-dependent:results", "results differ between the UTF-8 and the C locale")
    w = run_child("api", False, warn_error=True)
    if "__crash__" in w:
        raise Violation("warnings-as-errors:crash", f"the workload crashes when warnings are errors: {w['__crash__'][-300:]}")
    if w.get("errors"):
        raise Violation("warnings-as-errors:raises", f"with warnings turned into errors: {w['errors'][:2]}")
    if w["results"] != ref["results"]:
        diff = [(a, b) for a, b in zip(w["results"], ref["results"]) if a != b][:2]
        raise Violation("warnings-as-errors:results", f"results differ when warnings are errors: {diff}")
    return {"nt": ("env", "api", c.get("preferred_encoding")), "cls": ["env-children:utf8+C-locale+warnings-as-errors"],
            "sample": {"env": ["C.UTF-8", "LC_ALL=C PYTHONUTF8=0 PYTHONCOERCECLOCALE=0", "warnings.simplefilter('error')"], "calls": len(c["results"])}}


def env_items(shard, nshards):
    return [{"which": "api"}] if shard == 0 else []


if __name__ == "__main__":
    import locale

    doc = api_workload() if sys.argv[1] == "api" else cli_workload()
    doc["preferred_encoding"] = locale.getpreferredencoding(False)
    print(json.dumps(doc))
