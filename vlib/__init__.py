"""Verification library for the cm-colors property checks (property-based testing / fuzzing)."""
