"""Process-level observation helpers: fd-level stdout/stderr capture, an audit-hook log of file-system
writes, and scratch working directories."""
import os
import shutil
import sys
import tempfile

_AUDIT = {"installed": False, "on": False, "events": []}
_WRITE_FLAGS = os.O_WRONLY | os.O_RDWR | os.O_CREAT | os.O_TRUNC | os.O_APPEND


def _hook(event, args):
    if not _AUDIT["on"]:
        return
    try:
        if event == "open":
            path, mode, flags = (list(args) + [None, None, None])[:3]
            w = False
            if isinstance(mode, str):
                w = any(ch in mode for ch in "wax+")
            elif isinstance(flags, int):
                w = bool(flags & _WRITE_FLAGS)
            if w:
                _AUDIT["events"].append(("open-write", os.fspath(path) if not isinstance(path, int) else f"fd:{path}"))
        elif event in ("os.mkdir", "os.rmdir", "os.remove", "os.rename", "os.chdir", "os.truncate", "os.symlink", "os.link", "shutil.rmtree",
                       "shutil.move", "shutil.copyfile", "os.chmod", "os.utime", "os.replace"):
            _AUDIT["events"].append((event, tuple(os.fspath(a) if isinstance(a, (str, bytes, os.PathLike)) else a for a in args)))
    except Exception:
        pass


def audit_install():
    if not _AUDIT["installed"]:
        sys.addaudithook(_hook)
        _AUDIT["installed"] = True


class Audit:
    """with Audit() as a: ...; a.events -> list of (kind, path...) file-system modifications attempted."""

    def __enter__(self):
        audit_install()
        _AUDIT["events"] = []
        _AUDIT["on"] = True
        self.events = _AUDIT["events"]
        return self

    def __exit__(self, *exc):
        _AUDIT["on"] = False
        self.events = list(_AUDIT["events"])


class Capture:
    """fd-level capture of stdout and stderr (sees print, rich, C-level writes)."""

    def __enter__(self):
        sys.stdout.flush()
        sys.stderr.flush()
        self._files = [tempfile.TemporaryFile(), tempfile.TemporaryFile()]
        self._saved = [os.dup(1), os.dup(2)]
        os.dup2(self._files[0].fileno(), 1)
        os.dup2(self._files[1].fileno(), 2)
        self.out = self.err = b""
        return self

    def __exit__(self, *exc):
        try:
            sys.stdout.flush()
            sys.stderr.flush()
        except Exception:
            pass
        os.dup2(self._saved[0], 1)
        os.dup2(self._saved[1], 2)
        os.close(self._saved[0])
        os.close(self._saved[1])
        for i, f in enumerate(self._files):
            f.seek(0)
            data = f.read()
            f.close()
            if i == 0:
                self.out = data
            else:
                self.err = data


class Scratch:
    """A fresh empty directory that becomes the cwd; removed afterwards."""

    def __init__(self, prefix="verif_"):
        self.prefix = prefix

    def __enter__(self):
        self.prev = os.getcwd()
        self.path = tempfile.mkdtemp(prefix=self.prefix)
        os.chdir(self.path)
        return self

    def __exit__(self, *exc):
        os.chdir(self.prev)
        shutil.rmtree(self.path, ignore_errors=True)


def tree_snapshot(root):
    """{relative path: (kind, size, mtime_ns, mode, sha)} for everything under root (symlinks not followed)."""
    import hashlib

    snap = {}
    for dirpath, dirnames, filenames in os.walk(root, followlinks=False):
        for name in dirnames + filenames:
            p = os.path.join(dirpath, name)
            rel = os.path.relpath(p, root)
            st = os.lstat(p)
            if os.path.islink(p):
                snap[rel] = ("link", os.readlink(p))
            elif os.path.isdir(p):
                snap[rel] = ("dir", st.st_mode)
            else:
                try:
                    with open(p, "rb") as f:
                        h = hashlib.blake2b(f.read(), digest_size=12).hexdigest()
                except OSError:
                    h = "unreadable"
                snap[rel] = ("file", st.st_size, st.st_mtime_ns, st.st_mode, h)
    return snap
