"""Campaign runner: sharded Hypothesis campaigns and sharded enumerations, violation bucketing,
shrinking, replay files, known findings, evidence.

A check module (checks/cNN.py) exposes

    ID        property id
    LEVEL     evidence level ("exploration" / "fault_enumeration")
    RULE      text: how cases are generated and what makes one non-trivial / distinct
    ASSUMPTIONS  list[str]
    selftest()            -> None, raises HarnessError when an oracle anchor fails
    subchecks(tier)       -> list[Hyp | Enum]

`Hyp.judge(case)` and `Enum.judge(case)` are pure functions of a JSON-able `case`; they raise
`Violation` or return an info dict {"nt": key-or-None, "cls": [labels], "skip": optional reason}.
"""
from __future__ import annotations

import hashlib
import json
import multiprocessing as mp
import os
import sys
import time
import traceback
from collections import Counter
from dataclasses import dataclass, field
from typing import Any, Callable, Optional

VERIF_DIR = os.path.dirname(os.path.dirname(os.path.abspath(__file__)))
REPLAY_DIR = os.path.join(VERIF_DIR, "replays")
EVIDENCE_DIR = os.path.join(VERIF_DIR, "evidence")
KNOWN_FILE = os.path.join(VERIF_DIR, "known_findings.json")
NPROC = int(os.environ.get("VERIF_NPROC", "16"))


class HarnessError(Exception):
    """The harness itself is broken (oracle self-test, import, generator health): exit 2."""


class Violation(Exception):
    """The property does not hold on `case`. `bucket` names the root-cause signature."""

    def __init__(self, bucket: str, msg: str, case: Any = None):
        super().__init__(f"[{bucket}] {msg}")
        self.bucket = bucket
        self.msg = msg
        self.case = case


def jdump(x) -> str:
    return json.dumps(x, sort_keys=True, ensure_ascii=True, default=_json_default)


def _json_default(o):
    if isinstance(o, (set, frozenset)):
        return sorted(o)
    if isinstance(o, bytes):
        return {"__bytes__": o.hex()}
    if isinstance(o, tuple):
        return list(o)
    return repr(o)


def khash(x) -> int:
    """Stable 64-bit key of a JSON-able value (for distinct counting across shards)."""
    if not isinstance(x, str):
        x = jdump(x)
    return int.from_bytes(hashlib.blake2b(x.encode("utf-8", "surrogatepass"), digest_size=8).digest(), "big")


def exc_bucket(e: BaseException, pkg: str = "cm_colors") -> str:
    """Bucket an unexpected exception by type and innermost frame inside the package."""
    tb = traceback.extract_tb(e.__traceback__)
    inner = None
    for fr in tb:
        if f"/{pkg}/" in fr.filename.replace("\\", "/"):
            inner = fr
    if inner is None and tb:
        inner = tb[-1]
    where = f"{os.path.basename(inner.filename)}:{inner.name}" if inner else "?"
    return f"exc:{type(e).__name__}@{where}"


# --------------------------------------------------------------------------------------------
# sub-check descriptions


@dataclass
class Hyp:
    """A Hypothesis campaign. `strategy` is a zero-argument callable returning the strategy (built
    inside the worker so nothing unpicklable crosses the process boundary)."""

    name: str
    strategy: Callable[[], Any]
    judge: Callable[[Any], Optional[dict]]
    examples: int  # total over all shards
    shards: int = NPROC
    stateful: bool = False  # strategy() returns a RuleBasedStateMachine class instead
    step_count: int = 30
    setup: Optional[Callable[[], None]] = None  # run once per worker before the campaign
    max_rounds: int = 4  # distinct root-cause buckets collected per shard


@dataclass
class Enum:
    """An enumeration. `items(shard, nshards)` yields JSON-able cases (or `block` evaluates a whole
    shard at once and returns a partial result dict, for tight loops)."""

    name: str
    judge: Optional[Callable[[Any], Optional[dict]]] = None
    items: Optional[Callable[[int, int], Any]] = None
    block: Optional[Callable[[int, int], dict]] = None
    shards: int = NPROC
    exhaustive: bool = False
    setup: Optional[Callable[[], None]] = None


@dataclass
class Part:
    """Result of one shard (or the merge of many)."""

    evals: int = 0
    nt_keys: set = field(default_factory=set)  # hashed keys of distinct non-trivial cases
    nt_count: int = 0  # for enumerations whose cases are distinct by construction
    classes: Counter = field(default_factory=Counter)
    samples: list = field(default_factory=list)
    violations: list = field(default_factory=list)  # dicts {bucket,msg,case}
    known: Counter = field(default_factory=Counter)  # known-finding id -> matching cases set aside
    skipped: Counter = field(default_factory=Counter)
    notes: list = field(default_factory=list)
    error: Optional[str] = None
    budget_hit: bool = False

    def merge(self, o: "Part"):
        self.evals += o.evals
        self.nt_keys |= o.nt_keys
        self.nt_count += o.nt_count
        self.classes.update(o.classes)
        for s in o.samples:
            if len(self.samples) < 16:
                self.samples.append(s)
        self.violations.extend(o.violations)
        self.known.update(o.known)
        self.skipped.update(o.skipped)
        self.notes.extend(o.notes)
        self.budget_hit = self.budget_hit or o.budget_hit
        if o.error and not self.error:
            self.error = o.error

    def record(self, info: Optional[dict], case):
        if not info:
            return
        if info.get("skip"):
            self.skipped[info["skip"]] += 1
        for c in info.get("cls", ()):
            self.classes[c] += 1
        if info.get("runs"):
            self.evals += max(0, int(info["runs"]) - 1)  # one case that performed several executions
        for extra in info.get("extra_nt", ()):
            self.nt_keys.add(khash(extra))
        nt = info.get("nt")
        if nt is not None:
            k = khash(nt)
            if k not in self.nt_keys:
                self.nt_keys.add(k)
                if len(self.samples) < 4:
                    self.samples.append(info.get("sample", case))

    @property
    def distinct_nontrivial(self):
        return len(self.nt_keys) + self.nt_count


# --------------------------------------------------------------------------------------------
# known findings


def load_known(prop_id: str):
    if not os.path.exists(KNOWN_FILE):
        return []
    with open(KNOWN_FILE) as f:
        data = json.load(f)
    return [e for e in data.get("findings", []) if e.get("property") == prop_id]


def match_known(known_entries, matchers, subname, bucket, case):
    """Return the id of the `known` entry whose matcher accepts this violation, else None."""
    for e in known_entries:
        if e.get("status") != "known":
            continue
        if e.get("subcheck") not in (None, subname) and subname not in e.get("subchecks", []):
            continue
        m = matchers.get(e.get("matcher"))
        if m is None:
            continue
        try:
            if m(subname, bucket, case):
                return e["id"]
        except Exception:
            continue
    return None


# --------------------------------------------------------------------------------------------
# workers

_CTX: dict = {}


def _tier_budget_deadline():
    b = os.environ.get("VERIF_BUDGET_S")
    return (time.time() + float(b)) if b else None


def _run_hyp_shard(args):
    modname, subname, tier, seed, shard, nshards = args
    part = Part()
    try:
        import importlib

        mod = importlib.import_module(modname)
        sub = next(s for s in mod.subchecks(tier) if s.name == subname)
        if sub.setup:
            sub.setup()
        known_entries = load_known(mod.ID)
        matchers = getattr(mod, "MATCHERS", {})
        _hyp_campaign(mod, sub, tier, seed, shard, nshards, part, known_entries, matchers)
    except HarnessError as e:
        part.error = f"harness: {e}"
    except Exception as e:  # generator / hypothesis failure = harness error, never a violation
        part.error = f"harness: {type(e).__name__}: {e}\n{traceback.format_exc()}"
    return part


def _hyp_campaign(mod, sub: Hyp, tier, seed, shard, nshards, part: Part, known_entries, matchers):
    import hypothesis
    from hypothesis import HealthCheck, Phase, Verbosity, given, settings
    from hypothesis.internal.conjecture import engine as _engine

    # Hypothesis' own hard cap on shrinking time is 5 minutes; the quick tier must stay quick.
    _engine.MAX_SHRINKING_SECONDS = 20 if tier == "quick" else 240

    scale = float(os.environ.get("VERIF_SCALE", "1") or 1)
    n = max(1, int(sub.examples * scale) // nshards)
    shard_seed = seed * 1000 + shard
    ignored: set = set()
    deadline = _CTX.get("deadline")
    shrink_cap = 250 if tier == "quick" else 4000
    shrink_seconds = 12.0 if tier == "quick" else 240.0

    from collections import deque

    history = deque(maxlen=1500)  # last cases judged in this process (for history-dependent failures)

    for round_no in range(sub.max_rounds):
        state = {"after_fail": 0, "failing": set(), "capped": False, "first": None, "t_fail": None}

        def counted(case):
            st_ = state
            if deadline and time.time() > deadline:
                part.budget_hit = True
                return
            key = None
            if st_["failing"]:
                st_["after_fail"] += 1
                if st_["after_fail"] > shrink_cap or time.time() - st_["t_fail"] > shrink_seconds:
                    st_["capped"] = True
            if st_["capped"]:
                # shrinking budget used up: only the already-known failing cases are re-judged
                key = jdump(case)
                if key not in st_["failing"]:
                    return
            part.evals += 1
            try:
                info = sub.judge(case)
            except Violation as v:
                kid = match_known(known_entries, matchers, sub.name, v.bucket, case)
                if kid is not None:
                    part.known[kid] += 1
                    return
                if v.bucket in ignored:
                    part.skipped[f"already-reported:{v.bucket}"] += 1
                    return
                st_["failing"].add(key or jdump(case))
                if st_["t_fail"] is None:
                    st_["t_fail"] = time.time()
                v.case = case
                if st_["first"] is None:
                    st_["first"] = {"bucket": v.bucket, "msg": v.msg, "case": case, "history": list(history)}
                raise
            finally:
                history.append(case)
            part.record(info, case)

        phases = [Phase.generate, Phase.shrink]
        st = settings(
            max_examples=n,
            database=None,
            deadline=None,
            derandomize=False,
            report_multiple_bugs=False,
            phases=phases,
            suppress_health_check=[HealthCheck.too_slow, HealthCheck.data_too_large, HealthCheck.large_base_example],
            print_blob=False,
            verbosity=Verbosity.quiet,
        )
        try:
            if sub.stateful:
                from hypothesis.stateful import run_state_machine_as_test

                machine = sub.strategy()
                machine._verif_part = part  # machines record through this
                machine._first = None  # machines store their first Violation here (dict bucket/msg/case)
                st2 = settings(st, stateful_step_count=sub.step_count)
                run_state_machine_as_test(hypothesis.seed(shard_seed + 7919 * round_no)(machine), settings=st2)
            else:
                test = hypothesis.seed(shard_seed + 7919 * round_no)(settings(st)(given(sub.strategy())(counted)))
                test()
            return
        except Violation as v:
            hist = state["first"]["history"] if state["first"] else []
            part.violations.append({"sub": sub.name, "bucket": v.bucket, "msg": v.msg, "case": v.case, "history": hist})
            ignored.add(v.bucket)
            n = max(1, n // 2)
        except hypothesis.errors.Flaky as e:
            # The judges are pure functions of the case, so a verdict that changes between two runs of the
            # same case means the library's answer depended on earlier calls in this process. The first
            # failing execution was a real violation on a real input: report it, with the calls before it.
            f = state["first"]
            if f is None and sub.stateful:
                f = getattr(sub.strategy(), "_first", None)
                if f is not None:
                    f = dict(f, history=[])
            if f is None:
                part.error = f"harness: flaky generator in {sub.name}: {e}"
                return
            part.violations.append({"sub": sub.name, "bucket": "history-dependent:" + f["bucket"],
                                    "msg": f["msg"] + "  [the same case passed when re-run: the result depends on earlier calls]",
                                    "case": f["case"], "history": f["history"]})
            ignored.add(f["bucket"])
            n = max(1, n // 2)
        except hypothesis.errors.FailedHealthCheck as e:
            part.error = f"harness: health check in {sub.name}: {e}"
            return


def _run_enum_shard(args):
    modname, subname, tier, seed, shard, nshards = args
    part = Part()
    try:
        import importlib

        mod = importlib.import_module(modname)
        sub = next(s for s in mod.subchecks(tier) if s.name == subname)
        if sub.setup:
            sub.setup()
        known_entries = load_known(mod.ID)
        matchers = getattr(mod, "MATCHERS", {})
        if sub.block is not None:
            res = sub.block(shard, nshards)
            part.evals += res.get("evals", 0)
            part.nt_count += res.get("nt", 0)
            part.classes.update(res.get("classes", {}))
            part.samples.extend(res.get("samples", [])[:4])
            part.notes.extend(res.get("notes", []))
            seen = set()
            for v in res.get("violations", []):
                kid = match_known(known_entries, matchers, sub.name, v["bucket"], v["case"])
                if kid is not None:
                    part.known[kid] += 1
                    continue
                if v["bucket"] in seen:
                    part.skipped[f"more-of:{v['bucket']}"] += 1
                    continue
                seen.add(v["bucket"])
                v = dict(v)
                v["sub"] = sub.name
                part.violations.append(v)
        else:
            seen = set()
            for case in sub.items(shard, nshards):
                part.evals += 1
                try:
                    info = sub.judge(case)
                except Violation as v:
                    kid = match_known(known_entries, matchers, sub.name, v.bucket, case)
                    if kid is not None:
                        part.known[kid] += 1
                        continue
                    if v.bucket in seen:
                        part.skipped[f"more-of:{v.bucket}"] += 1
                        continue
                    seen.add(v.bucket)
                    part.violations.append({"sub": sub.name, "bucket": v.bucket, "msg": v.msg, "case": case})
                    continue
                part.record(info, case)
    except HarnessError as e:
        part.error = f"harness: {e}"
    except Exception as e:
        part.error = f"harness: {type(e).__name__}: {e}\n{traceback.format_exc()}"
    return part


# --------------------------------------------------------------------------------------------
# top level


def _pool(n):
    return mp.get_context("fork").Pool(n)


def run_subcheck(modname, sub, tier, seed) -> Part:
    total = Part()

    nsh = max(1, min(sub.shards, NPROC if sub.shards > 1 else 1))
    if isinstance(sub, Hyp):
        nsh = max(1, min(nsh, sub.examples))
    args = [(modname, sub.name, tier, seed, i, nsh) for i in range(nsh)]
    fn = _run_hyp_shard if isinstance(sub, Hyp) else _run_enum_shard
    if nsh == 1:
        parts = [fn(args[0])]
    else:
        with _pool(min(NPROC, nsh)) as p:
            parts = p.map(fn, args, chunksize=1)
    for pt in parts:
        total.merge(pt)
    return total


def write_replay(prop_id, v, seed, tier) -> str:
    os.makedirs(REPLAY_DIR, exist_ok=True)
    payload = {
        "property": prop_id,
        "subcheck": v["sub"],
        "bucket": v["bucket"],
        "message": v["msg"],
        "case": v["case"],
        "history": v.get("history", []),
        "seed": seed,
        "tier": tier,
    }
    h = hashlib.blake2b(jdump([v["sub"], v["bucket"], v["case"]]).encode(), digest_size=5).hexdigest()
    safe = "".join(ch if ch.isalnum() else "_" for ch in v["sub"])[:24]
    path = os.path.join(REPLAY_DIR, f"{prop_id}-{safe}-{h}.json")
    with open(path, "w") as f:
        f.write(json.dumps(payload, indent=1, sort_keys=True, default=_json_default))
    return path


def replay_case(mod, tier, payload):
    """Re-execute one recorded case through the same judge, without Hypothesis.
    Returns None if it passes, else the Violation."""
    subname = payload["subcheck"]
    subs = {s.name: s for s in mod.subchecks("thorough")}
    subs.update({s.name: s for s in mod.subchecks("quick")})
    subs.update({s.name: s for s in mod.subchecks(tier)})
    if hasattr(mod, "replay"):
        try:
            mod.replay(subname, payload["case"])
            return None
        except Violation as v:
            return v
    sub = subs.get(subname)
    if sub is None or sub.judge is None:
        raise HarnessError(f"no judge for sub-check {subname!r}")
    if sub.setup:
        sub.setup()
    try:
        sub.judge(payload["case"])
    except Violation as v:
        return v
    hist = payload.get("history") or []
    if hist:
        # history-dependent failure: replay the calls that preceded it in the original process
        for h in hist:
            try:
                sub.judge(h)
            except Violation as v:
                if jdump(h) == jdump(payload["case"]):
                    return v
        try:
            sub.judge(payload["case"])
        except Violation as v:
            return v
    return None


def child_check_block(prop_id, subname, extra_args, scale, label):
    """An enumeration block that re-runs one sub-check of a property in a CHILD check.py process with extra interpreter
    flags (e.g. --python-O) and turns its VIOLATION lines back into violations of this run."""
    import re
    import subprocess

    def block(shard, nshards):
        if shard != 0:
            return {"evals": 0, "nt": 0, "violations": []}
        env = dict(os.environ, VERIF_SCALE=str(scale))
        seed = int(os.environ.get("VERIF_SEED", "1") or 1) + 7000
        cmd = [sys.executable, os.path.join(VERIF_DIR, "check.py"), prop_id, "--tier", "quick", "--only", subname, "--seed", str(seed)] + list(extra_args)
        p = subprocess.run(cmd, env=env, capture_output=True, text=True, cwd=VERIF_DIR, timeout=3600)
        m = re.search(r"evals=(\d+) nontrivial=(\d+)", p.stdout)
        res = {"evals": int(m.group(1)) if m else 0, "nt": int(m.group(2)) if m else 0, "violations": [], "classes": {label: int(m.group(1)) if m else 0}, "samples": [{"child": " ".join(cmd[1:])}]}
        if p.returncode == 2 or not m:
            res["notes"] = [f"child check exited {p.returncode}: {p.stderr[-300:]}"]
            if p.returncode == 2:
                raise HarnessError(f"child check ({label}) failed: {p.stderr[-300:]}")
        for path in re.findall(r"^VIOLATION property=\S+ replay=(\S+)$", p.stdout, re.M):
            try:
                with open(path) as f:
                    pl = json.load(f)
                res["violations"].append({"bucket": f"{label}:{pl['bucket']}", "msg": f"[under {' '.join(extra_args)}] {pl['message']}", "case": pl["case"]})
            except Exception:
                res["violations"].append({"bucket": f"{label}:unknown", "msg": f"child reported a violation ({path})", "case": {}})
        return res

    return block


def validate_evidence(ev: dict):
    """Schema validation (jsonschema if present, else the essential rules by hand)."""
    schema_path = "/root/.vp/EVIDENCE.schema.json"
    local = os.path.join(VERIF_DIR, "tools", "EVIDENCE.schema.json")
    for p in (schema_path, local):
        if os.path.exists(p):
            try:
                import jsonschema

                with open(p) as f:
                    jsonschema.validate(ev, json.load(f))
                return
            except ImportError:
                break
    for k in ("property_id", "tier", "seed", "level", "coverage", "wall_s"):
        if k not in ev:
            raise HarnessError(f"evidence lacks {k}")
    cov = ev["coverage"]
    if cov.get("evaluations", 0) < 1 or cov.get("distinct_nontrivial", 0) < 2 or not cov.get("samples") or "rule" not in cov:
        raise HarnessError("evidence coverage does not satisfy the exploration rules")


def main_check(mod, tier: str, seed: int, replay: Optional[str] = None, only: Optional[str] = None) -> int:
    t0 = time.time()
    prop = mod.ID
    modname = mod.__name__
    setattr(mod, "TIER", tier)
    # --- replay mode -------------------------------------------------------------------
    if replay:
        with open(replay) as f:
            payload = json.load(f)
        mod.selftest()
        v = replay_case(mod, tier, payload)
        if v is None:
            print(f"replay {replay}: case passes on this tree")
            return 0
        print(f"replay {replay}: {v}")
        print(f"VIOLATION property={prop} replay={replay}")
        return 1

    budget = os.environ.get("VERIF_BUDGET_S")
    if budget:
        _CTX["deadline"] = time.time() + float(budget)

    # --- oracle self-tests ---------------------------------------------------------------
    mod.selftest()

    known_entries = load_known(prop)
    matchers = getattr(mod, "MATCHERS", {})
    total = Part()
    per_sub = {}
    sub_samples = []
    subs = mod.subchecks(tier)
    if only:
        subs = [s for s in subs if s.name in only.split(",")]
    for sub in subs:
        ts = time.time()
        part = run_subcheck(modname, sub, tier, seed)
        per_sub[sub.name] = {
            "kind": "hypothesis" + ("-stateful" if getattr(sub, "stateful", False) else "") if isinstance(sub, Hyp) else "enumeration",
            "evaluations": part.evals,
            "distinct_nontrivial": part.distinct_nontrivial,
            "exhaustive": bool(getattr(sub, "exhaustive", False)),
            "classes": dict(sorted(part.classes.items(), key=lambda kv: (-kv[1], kv[0]))[:40]),
            "skipped": dict(part.skipped),
            "known_set_aside": dict(part.known),
            "violations": len(part.violations),
            "wall_s": round(time.time() - ts, 2),
            "notes": part.notes[:10],
        }
        if isinstance(sub, Hyp):
            per_sub[sub.name]["examples_requested"] = sub.examples
        sub_samples.extend({"subcheck": sub.name, "case": c} for c in part.samples[:3])
        part.samples = []
        total.merge(part)
        print(f"[{prop}] {sub.name}: evals={part.evals} nontrivial={part.distinct_nontrivial} "
              f"violations={len(part.violations)} known={sum(part.known.values())} {time.time()-ts:.1f}s", flush=True)
        if part.error:
            print(f"HARNESS-ERROR property={prop} sub={sub.name}: {part.error}", file=sys.stderr)
            return 2

    # --- regression / known examples -------------------------------------------------------
    rc = 0
    violations = []
    # one replay file per (sub, bucket)
    seen = set()
    for v in total.violations:
        k = (v["sub"], v["bucket"])
        if k in seen:
            continue
        seen.add(k)
        violations.append(v)

    known_lines = []
    for e in known_entries:
        ex = e.get("example")
        if e.get("status") == "known":
            still = None
            if ex is not None:
                try:
                    still = replay_case(mod, tier, {"subcheck": e.get("example_subcheck", e.get("subcheck")), "case": ex})
                except HarnessError as he:
                    print(f"HARNESS-ERROR property={prop}: known example {e['id']}: {he}", file=sys.stderr)
                    return 2
            if ex is None or still is not None:
                known_lines.append(f"KNOWN-FINDING: property={prop} {e['id']}: {e['what']} "
                                   f"(matching cases set aside this run: {total.known.get(e['id'], 0)})")
            else:
                print(f"NOTE property={prop} {e['id']}: recorded example no longer fails on this tree")
        elif e.get("status") == "fixed" and ex is not None:
            try:
                still = replay_case(mod, tier, {"subcheck": e.get("example_subcheck", e.get("subcheck")), "case": ex})
            except HarnessError as he:
                print(f"HARNESS-ERROR property={prop}: regression example {e['id']}: {he}", file=sys.stderr)
                return 2
            total.evals += 1
            if still is not None:
                violations.append({"sub": e.get("example_subcheck", e.get("subcheck")), "bucket": "regression:" + e["id"],
                                   "msg": f"fixed finding {e['id']} is back: {still.msg}", "case": ex})
    for line in known_lines:
        print(line)

    paths = []
    for v in violations:
        pth = write_replay(prop, v, seed, tier)
        paths.append(pth)
        print(f"  violation [{v['sub']}] [{v['bucket']}] {v['msg']}")
        print(f"VIOLATION property={prop} replay={pth}")
        rc = 1

    # --- evidence -------------------------------------------------------------------------
    wall = time.time() - t0
    samples = sub_samples[:24]
    if not samples:
        # every explored case failed before one could be recorded: the failing cases are the samples
        samples = [{"subcheck": v["sub"], "case": v["case"], "violation": v["bucket"]} for v in violations[:6]]
    ev = {
        "property_id": prop,
        "tier": tier,
        "seed": seed,
        "level": mod.LEVEL,
        "coverage": {
            "evaluations": total.evals,
            "distinct_nontrivial": total.distinct_nontrivial,
            "rule": mod.RULE,
            "samples": samples,
            "exhaustive": bool(subs) and all(getattr(s, "exhaustive", False) for s in subs),
            "subchecks": per_sub,
            "class_histogram": dict(sorted(total.classes.items(), key=lambda kv: (-kv[1], kv[0]))[:60]),
            "known_findings_set_aside": dict(total.known),
            "skipped": dict(total.skipped),
            "budget_hit": total.budget_hit,
            "repo": os.environ.get("VERIF_REPO", "/repo"),
            "replays": paths,
        },
        "assumptions": list(getattr(mod, "ASSUMPTIONS", [])),
        "wall_s": round(wall, 2),
        "violations": len(violations),
    }
    try:
        validate_evidence(json.loads(json.dumps(ev, default=_json_default)))
    except Exception as e:
        if rc == 1:
            # a violation was found and reported; thin evidence (e.g. nothing non-trivial passed) must not mask it
            print(f"NOTE property={prop}: evidence of this failing run does not validate ({str(e)[:120]})", file=sys.stderr)
            return 1
        print(f"HARNESS-ERROR property={prop}: evidence invalid: {e}", file=sys.stderr)
        return 2
    if not only:
        # evidence proper only describes runs against /repo itself; scratch trees (sensitivity runs) go aside
        edir = EVIDENCE_DIR if os.path.realpath(os.environ.get("VERIF_REPO", "/repo")) == os.path.realpath("/repo") else os.path.join(EVIDENCE_DIR, "_scratch")
        os.makedirs(edir, exist_ok=True)
        with open(os.path.join(edir, f"{prop}.json"), "w") as f:
            f.write(json.dumps(ev, indent=1, sort_keys=False, default=_json_default))
    print(f"[{prop}] tier={tier} seed={seed} evals={total.evals} distinct_nontrivial={total.distinct_nontrivial} "
          f"violations={len(violations)} wall={wall:.1f}s")
    return rc
