"""Shared helpers for the optimiser properties (C01-C04, C16): building cases, calling the API, reading
results back through the independent oracles."""
from fractions import Fraction as F

from hypothesis import strategies as st

from vlib.gen import colors as gc
from vlib.oracles import css as ocss
from vlib.oracles import wcag as ow
from vlib.runner import Violation, exc_bucket


def readback_set(value):
    """Colour(s) a CSS consumer reads from a returned value (tuple -> itself). Raises Violation when the
    value is not valid CSS / not a valid triple."""
    if isinstance(value, tuple):
        if len(value) == 3 and all(isinstance(v, int) and not isinstance(v, bool) and 0 <= v <= 255 for v in value):
            return {tuple(value)}
        raise Violation("result-not-a-colour", f"returned tuple {value!r} is not an 8-bit triple")
    if isinstance(value, str):
        try:
            return ocss.read_rgb_set(value)
        except ocss.CssReject as e:
            raise Violation("result-not-css", f"returned string {value!r} is not a CSS colour: {e}")
    raise Violation("result-type", f"returned colour has type {type(value).__name__}: {value!r}")


def opaque_bg(bg_arg):
    """Background colour as a CSS consumer reads it; None when it is translucent / has ties (callers
    then fall back to the library's own composite after a tolerance check)."""
    try:
        s = ocss.read_input_set(bg_arg)
    except ocss.CssReject:
        return None
    return next(iter(s)) if len(s) == 1 else None


def make_pair(case):
    from cm_colors import ColorPair

    t, b = gc.dec(case["text"]), gc.dec(case["bg"])
    w = case.get("warm") or {}
    if w.get("other_bg") is not None:
        # the same text literal was used on ANOTHER background earlier in this process (only matters for translucent text)
        try:
            ColorPair(t, gc.dec(w["other_bg"]), case.get("large", False)).is_readable
        except Exception as e:
            raise Violation(exc_bucket(e), f"ColorPair({t!r}, {w['other_bg']!r}) raised {e!r}")
    tw = _twin(t, w.get("twin"))
    if tw is not None:
        # a look-alike of the text literal (its str(), its float / other-container form, its other letter case) was parsed on
        # the same background earlier in this process: a parse memo keyed on a normalised form would confuse the two
        try:
            ColorPair(tw, b, case.get("large", False)).is_readable
        except Exception as e:
            raise Violation(exc_bucket(e), f"ColorPair({tw!r}, {b!r}) raised {e!r}")
    try:
        pair = ColorPair(t, b, case.get("large", False))
    except Exception as e:
        raise Violation(exc_bucket(e), f"ColorPair({t!r}, {b!r}) raised {e!r}")
    return pair, t, b


def _twin(t, kind):
    if not kind:
        return None
    if isinstance(t, (tuple, list)):
        if kind == "str":
            return str(t)
        if kind == "float" and all(isinstance(x, int) and not isinstance(x, bool) for x in t):
            return type(t)(float(x) for x in t)
        if kind == "container":
            return list(t) if isinstance(t, tuple) else tuple(t)
        return None
    if isinstance(t, str):
        if kind == "swapcase" and t.swapcase() != t:
            return t.swapcase()
        if kind == "str":
            return " " + t + " "
    return None


def true_original(pair, t, bg_rgb):
    """The composited original text colour. Normally the library's own pair.text.rgb (its correctness is C13's business), but
    if that is further than 1.5 units per channel from the exact source-over blend it is stale or wrong, and the exact blend
    (rounded) is what the user's text really looks like."""
    try:
        if isinstance(t, str):
            fq = ocss.parse_input(t)
        elif isinstance(t, (tuple, list)) and len(t) == 4 and all(isinstance(v, int) and not isinstance(v, bool) for v in t[:3]):
            fq = (F(t[0]), F(t[1]), F(t[2]), F(t[3]))
        else:
            return pair.text.rgb
    except (ocss.CssReject, TypeError, ValueError):
        return pair.text.rgb
    if fq[3] == 1:
        return pair.text.rgb
    exact = ocss.composite(fq, bg_rgb)
    if all(abs(F(pair.text.rgb[k]) - exact[k]) <= F(3, 2) + F(1, 10**9) for k in range(3)):
        return pair.text.rgb
    return tuple(int(round(float(x))) for x in exact)


def verdict(rgbs, bg, minimum):
    """Tri-state verdict over all acceptable read-backs: True / False / None (indeterminate)."""
    vs = {ow.meets(c, bg, minimum) for c in rgbs}
    if vs == {True}:
        return True
    if vs == {False}:
        return False
    return None


def judged_bg(pair, b):
    """The background the verdict is taken against: what O-CSS reads from an opaque spelling; for a
    translucent background the library's composite over white (checked elsewhere, C13)."""
    o = opaque_bg(b) if not (isinstance(b, (tuple, list)) and len(b) == 4) else None
    if o is not None:
        return o, o == pair.bg.rgb
    # translucent background: composited over white. The library's value is used when it is within 1.5 units of the exact
    # blend (C13 judges the blend itself); if it is further off, a CSS consumer sees the exact blend, so that is the background
    try:
        if isinstance(b, str):
            bq = ocss.parse_input(b)
        elif isinstance(b, (tuple, list)) and len(b) == 4 and all(isinstance(v, int) and not isinstance(v, bool) for v in b[:3]):
            bq = (F(b[0]), F(b[1]), F(b[2]), F(b[3]))
        else:
            return pair.bg.rgb, True
        exact = ocss.composite(bq, (255, 255, 255))
        if not all(abs(F(pair.bg.rgb[k]) - exact[k]) <= F(3, 2) + F(1, 10**9) for k in range(3)):
            return tuple(int(round(float(x))) for x in exact), True
    except (ocss.CssReject, TypeError, ValueError):
        pass
    return pair.bg.rgb, True


# ---- strategies -----------------------------------------------------------------------------------------


@st.composite
def spelled_pair_case(draw, pair_strategy, translucent_share=8, kinds=None):
    """A full case dict: constructed (text,bg) x spelling x settings."""
    text, bg, meta = draw(pair_strategy)
    # the #rgb and keyword spellings only exist for few colours: now and then snap the drawn colours onto them
    snap = draw(st.integers(0, 11))
    if snap == 0:
        text = tuple(int(round(c / 17.0)) * 17 for c in text)
    elif snap == 1:
        text = gc.nearest_keyword(text)
    elif snap == 2:
        bg = tuple(int(round(c / 17.0)) * 17 for c in bg)
    elif snap == 3:
        bg = gc.nearest_keyword(bg)
    large, very, mode = draw(gc.settings3())
    k = draw(st.integers(0, 99))
    if k < translucent_share:
        # translucent text over the pair's background: choose foreground so the composite is near `text`
        targ, kind = draw(gc.translucent_near(text, bg))
        tkind = "translucent:" + kind
    else:
        targ, tkind, _ = draw(gc.spell(text, kinds=kinds))
    barg, bkind, _ = draw(gc.spell(bg, allow_translucent=False))
    if draw(st.integers(0, 14)) == 0:
        # a translucent background (composited over white): solve for the colour whose blend over white is about `bg`
        barg, bk = draw(gc.translucent_near(bg, (255, 255, 255)))
        if isinstance(barg, str) and draw(st.booleans()):
            barg = barg.replace(", 0.", ", .")  # minifier style: alpha without the leading zero
        bkind = "translucent:" + bk
    case = {"text": targ, "bg": barg, "large": large, "very": very, "mode": mode,
            "tkind": tkind, "bkind": bkind, "meta": meta}
    w = draw(warm())
    if w:
        case["warm"] = w
    return case


def uniform_pairs():
    return st.tuples(gc.rgb(), gc.rgb()).map(lambda t: (t[0], t[1], {"thr": None, "delta": None, "lighter": None, "band": gc.band(t[1])}))


def near_pairs(**kw):
    return gc.pair_near(**kw)


def minimum_for(case):
    return ow.minimum(case.get("large", False), case.get("very", False))


def warm():
    """Optional earlier call on the SAME ColorPair object with other settings (None two times in three): results
    must not depend on it (a per-object memo or a cache keyed on part of the arguments would make them)."""
    other_bg = st.one_of(st.none(), st.none(), st.sampled_from(["#ffffff", "#000000", "#808080", "#b7439e"]))
    return st.one_of(st.none(), st.none(), st.fixed_dictionaries({"mode": st.sampled_from([0, 1, 2]), "very": st.booleans(),
                                                                  "large": st.sampled_from([None, None, False, True]), "other_bg": other_bg,
                                                                  "twin": st.sampled_from([None, None, "str", "float", "container", "swapcase"])}))


def call_make_readable(pair, case, **extra):
    w = case.get("warm")
    if w:
        try:
            if w.get("large") is None:
                pair.make_readable(mode=w["mode"], very_readable=w["very"])  # same object
            else:
                from cm_colors import ColorPair  # same colours, another text size: a different object

                ColorPair(gc.dec(case["text"]), gc.dec(case["bg"]), w["large"]).make_readable(mode=w["mode"], very_readable=w["very"])
        except Exception as e:
            raise Violation(exc_bucket(e), f"warm-up make_readable(mode={w['mode']}, very_readable={w['very']}) raised {e!r} for {describe(case)}")
    try:
        return pair.make_readable(mode=case["mode"], very_readable=case["very"], **extra)
    except Exception as e:
        raise Violation(exc_bucket(e), f"make_readable(mode={case['mode']}, very_readable={case['very']}) raised {e!r} for {describe(case)}")


def describe(case):
    return (f"text={gc.dec(case['text'])!r} bg={gc.dec(case['bg'])!r} large={case.get('large')} very={case.get('very')} mode={case.get('mode')}"
            + (f" after a call with {case['warm']} on the same object (twin / other_bg: a look-alike literal / the same literal on another background was parsed first)" if case.get("warm") else ""))
