"""Running the cm-colors command in-process (click's CliRunner) inside a scratch directory and reading
back everything it produced."""
import os
import re

from vlib.oracles import htmlo
from vlib.runner import Violation, exc_bucket
from vlib.sandbox import Audit, Scratch, tree_snapshot

RE_READABLE = re.compile(r"(\d+) color pairs already readable")
RE_TUNED = re.compile(r"(\d+) color pairs adjusted for better readability")
RE_FAILED = re.compile(r"(\d+) color pairs need your attention")
RE_LISTED = re.compile(r"^  (?P<file>.+?) -> (?P<sel>.*)$")
REPORT = "cm_colors_report.html"


def args_for(target, settings):
    a = [target, "--mode", str(settings.get("mode", 1))]
    if settings.get("premium"):
        a.append("--premium")
    if settings.get("default_bg") is not None:
        a += ["--default-bg", settings["default_bg"]]
    return a


def parse_stdout(out):
    def one(rx):
        m = rx.search(out)
        return int(m.group(1)) if m else 0

    listed = []
    in_list = False
    for line in out.splitlines():
        if line.startswith("Could not tune "):
            in_list = True
            continue
        if in_list:
            m = RE_LISTED.match(line)
            if m and not line.startswith("    "):
                listed.append((m.group("file"), m.group("sel")))
    m = re.search(r"Processing (\d+) files", out)
    recognised = bool(m) or "No CSS files found" in out
    summary_seen = bool(RE_READABLE.search(out) or RE_TUNED.search(out) or RE_FAILED.search(out))
    return {"readable": one(RE_READABLE), "adjusted": one(RE_TUNED), "attention": one(RE_FAILED), "listed": listed,
            "processing": int(m.group(1)) if m else None, "recognised": recognised, "summary_seen": summary_seen}


def run_cli(files, target, settings, setup=None, audit=False, keep=None):
    """files: {relative path: str | bytes}. Runs `cm-colors <target> ...` with cwd = a fresh scratch directory that
    holds the files. Returns a dict with stdout, stderr, exit code, parsed counts, report cards, the tree snapshot
    before / after and the text of every file that exists afterwards (utf-8 with replacement)."""
    from click.testing import CliRunner

    from cm_colors.cli.main import main as cli_main

    with Scratch("cli_") as sc:
        for rel, content in files.items():
            p = os.path.join(sc.path, rel)
            os.makedirs(os.path.dirname(p), exist_ok=True)
            mode = "wb" if isinstance(content, bytes) else "w"
            with open(p, mode, **({} if isinstance(content, bytes) else {"encoding": "utf-8", "newline": ""})) as f:
                f.write(content)
        if setup:
            setup(sc.path)
        before = tree_snapshot(sc.path)
        events = []
        try:
            if audit:
                with Audit() as aud:
                    res = CliRunner().invoke(cli_main, args_for(target, settings))
                events = aud.events
            else:
                res = CliRunner().invoke(cli_main, args_for(target, settings))
        except Exception as e:  # CliRunner catches exceptions itself; this is belt and braces
            raise Violation(exc_bucket(e), f"cm-colors raised {e!r}")
        after = tree_snapshot(sc.path)
        texts = {}
        for rel, meta in after.items():
            if meta[0] == "file":
                with open(os.path.join(sc.path, rel), "rb") as f:
                    texts[rel] = f.read()
        try:
            stdout, stderr = res.stdout, res.stderr
        except (ValueError, AttributeError):
            stdout, stderr = res.output, ""
        report_html = texts.get(REPORT)
        cards = htmlo.cards(report_html.decode("utf-8", "replace")) if report_html is not None else []
        real = os.path.realpath(sc.path)
        return {
            "exit": res.exit_code,
            "exception": None if res.exception is None or isinstance(res.exception, SystemExit) else repr(res.exception),
            "stdout": stdout, "stderr": stderr, "counts": parse_stdout(stdout), "cards": cards,
            "before": before, "after": after, "texts": texts,
            "events": [(k, (os.path.relpath(os.path.realpath(str(p)), real) if isinstance(p, str) else p)) for k, p in events] if audit else [],
            "cwd": sc.path,
        }


def out_name(rel):
    root, ext = os.path.splitext(rel)
    return root + "_cm" + ext
