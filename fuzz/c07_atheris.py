#!/venv/bin/python
"""atheris (libFuzzer) stage for C07: coverage-guided search over the STRUCTURED generator. libFuzzer's bytes drive the
Hypothesis strategy of checks/c07.py (`fuzz_one_input`), so every input is a grammatical CSS Color 3 value and coverage
feedback from the instrumented library steers the choices; the C07 oracle (exact-rational O-CSS) runs inside the target.
Violations are bucketed and recorded, the campaign continues behind them; progress is flushed to $C07_RESULT."""
import json
import os
import sys

import atheris

with atheris.instrument_imports(include=["cm_colors"]):
    import cm_colors  # noqa: F401
    from cm_colors.core import color_parser, conversions  # noqa: F401

from hypothesis import HealthCheck, given, settings

from checks import c07
from vlib.runner import Violation, khash

STATE = {"evals": 0, "nt": set(), "violations": {}, "samples": []}
OUT = os.environ.get("C07_RESULT")


def flush():
    if not OUT:
        return
    res = {"evals": STATE["evals"], "nt": len(STATE["nt"]), "violations": list(STATE["violations"].values()), "samples": STATE["samples"][:3],
           "classes": {"atheris-exec": STATE["evals"]}}
    tmp = OUT + ".tmp"
    with open(tmp, "w") as f:
        json.dump(res, f)
    os.replace(tmp, OUT)


@settings(database=None, deadline=None, suppress_health_check=list(HealthCheck))
@given(c07.func_strategy())
def one(case):
    STATE["evals"] += 1
    try:
        info = c07.func_judge(case)
        if info and info.get("nt") is not None:
            k = khash(info["nt"])
            if k not in STATE["nt"]:
                STATE["nt"].add(k)
                if len(STATE["samples"]) < 3:
                    STATE["samples"].append({"s": case["s"], "source": "atheris+hypothesis"})
    except Violation as v:
        if v.bucket not in STATE["violations"]:
            STATE["violations"][v.bucket] = {"bucket": v.bucket, "msg": v.msg, "case": case}
            flush()
    if STATE["evals"] % 20000 == 0:
        flush()


def main():
    atheris.Setup(sys.argv, one.hypothesis.fuzz_one_input)
    flush()
    atheris.Fuzz()


if __name__ == "__main__":
    main()
