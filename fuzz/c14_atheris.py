#!/venv/bin/python
"""atheris (libFuzzer) target for C14: any string through Color / ColorPair with the C14 oracle inside.
Violations are bucketed and recorded (the campaign continues behind them); progress is flushed to
$C14_RESULT because atexit handlers do not run when libFuzzer ends the process."""
import json
import os
import sys

import atheris

with atheris.instrument_imports(include=["cm_colors"]):
    import cm_colors  # noqa: F401
    from cm_colors.core import color_parser, conversions  # noqa: F401

from checks import c14
from vlib.runner import Violation, khash

STATE = {"evals": 0, "nt": set(), "violations": {}, "samples": []}
OUT = os.environ.get("C14_RESULT")


def flush():
    if not OUT:
        return
    res = {"evals": STATE["evals"], "nt": len(STATE["nt"]), "violations": list(STATE["violations"].values()), "samples": STATE["samples"][:3],
           "classes": {}}
    tmp = OUT + ".tmp"
    with open(tmp, "w") as f:
        json.dump(res, f)
    os.replace(tmp, OUT)


def TestOneInput(data):
    fdp = atheris.FuzzedDataProvider(data)
    s = fdp.ConsumeUnicodeNoSurrogates(64)
    STATE["evals"] += 1
    case = {"x": s}
    try:
        info = c14.judge(case)
        if info and info.get("nt") is not None:
            k = khash(info["nt"])
            if k not in STATE["nt"]:
                STATE["nt"].add(k)
                if len(STATE["samples"]) < 3:
                    STATE["samples"].append({"x": s, "source": "atheris"})
    except Violation as v:
        if v.bucket not in STATE["violations"]:
            STATE["violations"][v.bucket] = {"bucket": v.bucket, "msg": v.msg, "case": case}
            flush()
    if STATE["evals"] % 20000 == 0:
        flush()


def main():
    atheris.Setup(sys.argv, TestOneInput)
    flush()
    atheris.Fuzz()


if __name__ == "__main__":
    main()
