#!/venv/bin/python
"""Entry point:  check.py <ID> --tier quick|thorough [--replay FILE] [--only sub1,sub2]

Exit 0: property held on everything explored (KNOWN-FINDING lines possible)
Exit 1: `VIOLATION property=<id> replay=<path>` printed
Exit 2: harness error (never a verdict on the code)
"""
import argparse
import importlib
import os
import sys

HERE = os.path.dirname(os.path.abspath(__file__))


def _reexec_if_needed():
    want = {"PYTHONHASHSEED": "0", "PYTHONDONTWRITEBYTECODE": "1", "PYTHONIOENCODING": "utf-8"}
    want_O = "--python-O" in sys.argv
    if all(os.environ.get(k) == v for k, v in want.items()) and (not want_O or sys.flags.optimize):
        return
    env = dict(os.environ)
    env.update(want)
    os.execve(sys.executable, [sys.executable] + (["-O"] if want_O else []) + sys.argv, env)


def main():
    _reexec_if_needed()
    ap = argparse.ArgumentParser()
    ap.add_argument("id")
    ap.add_argument("--tier", default=os.environ.get("VERIF_TIER", "quick"), choices=["quick", "thorough"])
    ap.add_argument("--replay")
    ap.add_argument("--only")
    ap.add_argument("--seed", type=int, default=None)
    ap.add_argument("--python-O", action="store_true", help="run the whole check under `python -O` (asserts compiled out)")
    a = ap.parse_args()

    repo = os.path.abspath(os.environ.get("VERIF_REPO", "/repo"))
    src = os.path.join(repo, "src")
    deps = os.path.join(HERE, ".deps")
    sys.path[:0] = [src, HERE]
    if os.path.isdir(deps):
        sys.path.append(deps)  # after site-packages: only supplies what /venv lacks (atheris, jsonschema)
    os.environ["VERIF_REPO"] = repo
    pid = a.id.upper()
    try:
        seed = a.seed if a.seed is not None else int(os.environ.get("VERIF_SEED", "1") or "1")
    except ValueError:
        seed = 1
    try:
        import cm_colors

        real = os.path.realpath(cm_colors.__file__)
        if not real.startswith(os.path.realpath(src) + os.sep):
            print(f"HARNESS-ERROR property={pid}: cm_colors imported from {real}, expected under {src}", file=sys.stderr)
            return 2
        import hypothesis  # noqa: F401
    except Exception as e:
        print(f"HARNESS-ERROR property={pid}: import failed: {type(e).__name__}: {e}", file=sys.stderr)
        return 2
    from vlib import runner

    try:
        mod = importlib.import_module(f"checks.{pid.lower()}")
    except ModuleNotFoundError as e:
        print(f"HARNESS-ERROR property={pid}: no check module ({e})", file=sys.stderr)
        return 2
    try:
        return runner.main_check(mod, a.tier, seed, replay=a.replay, only=a.only)
    except runner.HarnessError as e:
        print(f"HARNESS-ERROR property={pid}: {e}", file=sys.stderr)
        return 2
    except Exception as e:
        import traceback

        traceback.print_exc()
        print(f"HARNESS-ERROR property={pid}: {type(e).__name__}: {e}", file=sys.stderr)
        return 2


if __name__ == "__main__":
    sys.exit(main())
