"""C14 — invalid colour input is reported, never raised."""
import os
import subprocess
import sys

from hypothesis import strategies as st

from vlib.gen import colors as gc
from vlib.gen import junk
from vlib.runner import Enum, Hyp, VERIF_DIR, Violation, exc_bucket

ID = "C14"
LEVEL = "exploration"
RULE = (
    "Hypothesis G-junk: near-miss CSS assembled from fragments (truncated functions, stray units, signs, percent signs, nested "
    "parentheses, var(), inherit/transparent/currentcolor, non-ASCII digits, NUL), function-call shaped strings with arbitrary "
    "argument tokens, arbitrary text, and lists/tuples of length 0-6 over ints (|x| < 2^63), floats incl. nan/inf/denormals, "
    "numeric and arbitrary strings, None, bools; through Color(x), ColorPair(x, y), ColorPair(x, '#fff'), ColorPair('#000', y) and "
    "make_readable_bulk. Thorough tier adds a coverage-guided atheris (libFuzzer) campaign on strings with the same oracle in "
    "the target. Non-trivial: INVALID inputs sharing a structural feature with a valid form (function prefix, '#', a digit "
    "run, length 3/4 sequence); distinct by input."
)
ASSUMPTIONS = [
    "domain as the property states: strings, and flat lists/tuples over numbers, strings, None, bools (no nested sequences, no bytes)",
    "atheris stage is skipped (and reported) if the wheel could not be installed by setup",
]


def selftest():
    pass


def _state_ok(c, what, order=(0, 1, 2)):
    """Either valid with an 8-bit triple and no error, or invalid with rgb None and a non-empty message.
    `order` = the order in which the three attributes are first read (a lazily parsing object must answer the same)."""
    try:
        got = {}
        for k in order:
            got[k] = (c.is_valid, None, None)[0] if k == 0 else (c.rgb if k == 1 else c.error)
        valid, rgb, err = got[0], got[1], got[2]
    except Exception as e:
        raise Violation(exc_bucket(e), f"{what}: reading is_valid/rgb/error raised {e!r}")
    if valid:
        ok = isinstance(rgb, tuple) and len(rgb) == 3 and all(type(v) is int and 0 <= v <= 255 for v in rgb)
        if not ok:
            raise Violation("valid-but-rgb-not-8bit-triple", f"{what}: is_valid but rgb = {rgb!r}")
        if err is not None:
            raise Violation("valid-but-error-set", f"{what}: is_valid but error = {err!r}")
    else:
        if rgb is not None:
            raise Violation("invalid-but-rgb-set", f"{what}: invalid but rgb = {rgb!r}")
        if not (isinstance(err, str) and err.strip()):
            raise Violation("invalid-without-message", f"{what}: invalid but error = {err!r}")
    return valid


def structural(x):
    if isinstance(x, str):
        l = x.lower()
        return any(k in l for k in ("rgb", "hsl", "#", "(", "%")) or any(ch.isdigit() for ch in l)
    return len(x) in (3, 4)


def judge(case):
    from cm_colors import Color, ColorPair, make_readable_bulk

    x = gc.dec(case["x"])
    y = gc.dec(case["y"]) if "y" in case else None
    try:
        c = Color(x)
    except Exception as e:
        raise Violation(exc_bucket(e), f"Color({x!r}) raised {e!r}")
    order = tuple(case.get("order") or (0, 1, 2))
    vx = _state_ok(c, f"Color({x!r}) [attributes read in order {order}]", order)
    combos = [(x, "#fff"), ("#000", x)]
    if y is not None:
        combos.append((x, y))
    for t, b in combos:
        try:
            p = ColorPair(t, b)
        except Exception as e:
            raise Violation(exc_bucket(e), f"ColorPair({t!r}, {b!r}) raised {e!r}")
        vt = _state_ok(p.text, f"ColorPair({t!r}, {b!r}).text [order {order}]", order)
        vb = _state_ok(p.bg, f"ColorPair({t!r}, {b!r}).bg [order {order}]", order)
        try:
            pv, errs = p.is_valid, p.errors
        except Exception as e:
            raise Violation(exc_bucket(e), f"ColorPair({t!r}, {b!r}).is_valid/errors raised {e!r}")
        if pv != (vt and vb):
            raise Violation("pair-validity-inconsistent", f"ColorPair({t!r}, {b!r}).is_valid = {pv} but text valid={vt}, bg valid={vb}")
        if not pv:
            if not errs or not all(isinstance(m, str) and m for m in errs):
                raise Violation("invalid-pair-without-errors", f"ColorPair({t!r}, {b!r}) invalid but errors = {errs!r}")
            try:
                ir = p.is_readable
                mr = p.make_readable()
            except Exception as e:
                raise Violation(exc_bucket(e), f"invalid ColorPair({t!r}, {b!r}): is_readable/make_readable raised {e!r}")
            if ir != "Not Readable":
                raise Violation("invalid-pair-readable", f"invalid ColorPair({t!r}, {b!r}).is_readable = {ir!r}")
            if mr != (None, False):
                raise Violation("invalid-pair-make-readable", f"invalid ColorPair({t!r}, {b!r}).make_readable() = {mr!r}")
            if case.get("bulk"):
                # also: the same invalid entry twice in a row, first in the list, alone
                for pattern in (case.get("bulk_patterns") or []):
                    pl = {"twice": [(t, b), (t, b)], "valid-then-twice": [("#000", "#fff"), (t, b), (t, b)], "alone": [(t, b)], "twice-large": [(t, b, True), (t, b, True)]}[pattern]
                    invalid_at = {"twice": (0, 1), "valid-then-twice": (1, 2), "alone": (0,), "twice-large": (0, 1)}[pattern]
                    try:
                        po = make_readable_bulk(list(pl))
                    except Exception as e:
                        raise Violation(exc_bucket(e), f"make_readable_bulk({pl!r}) raised {e!r}")
                    if len(po) != len(pl):
                        raise Violation("bulk-length", f"bulk returned {len(po)} results for {len(pl)} entries ({pl!r})")
                    for idx, (ent, res) in enumerate(zip(pl, po)):
                        if idx in invalid_at:
                            if not (isinstance(res[1], str) and "invalid" in res[1].lower()) or res[1] in ("readable", "very readable"):
                                raise Violation("bulk-invalid-entry-report", f"bulk reported {res!r} for invalid entry {ent!r} in {pl!r}")
                entries = [("#777", "#fff"), (t, b), ("#000", "#fff", True)]
                try:
                    if case.get("with_report"):
                        # the report path must carry on past the invalid entry as well
                        from vlib.sandbox import Capture, Scratch

                        with Scratch("c14r_"):
                            with Capture():
                                out = make_readable_bulk(entries, save_report=True)
                    else:
                        out = make_readable_bulk(entries)
                except Exception as e:
                    raise Violation(exc_bucket(e), f"make_readable_bulk{' (save_report=True)' if case.get('with_report') else ''} with invalid entry ({t!r}, {b!r}) raised {e!r}")
                if len(out) != 3:
                    raise Violation("bulk-length", f"bulk returned {len(out)} results for 3 entries (invalid entry ({t!r}, {b!r}))")
                status = out[1][1]
                reported_invalid = isinstance(status, str) and "invalid" in status.lower() and status not in ("readable", "very readable")
                if not reported_invalid or not (out[1][0] is t or out[1][0] == t or (out[1][0] != out[1][0] and t != t)):
                    raise Violation("bulk-invalid-entry-report", f"bulk reported {out[1]!r} for invalid entry ({t!r}, {b!r})")
                if out[0][1] != "readable" or out[2] != ("#000000", "very readable"):
                    raise Violation("bulk-neighbours-disturbed", f"bulk neighbours of invalid entry ({t!r}, {b!r}) came out as {out[0]!r}, {out[2]!r}")
    kind = "str" if isinstance(x, str) else f"seq{len(x)}"
    nt = str(case["x"]) if (not vx and structural(x)) else None
    return {"nt": nt, "cls": [f"{kind}:{'valid' if vx else 'invalid'}"], "sample": {"x": case["x"], "valid": vx, "error": c.error}}


def strategy():
    x = junk.anything().map(gc.enc)
    y = junk.anything().map(gc.enc)
    order = st.permutations([0, 1, 2]).map(list)
    pats = st.lists(st.sampled_from(["twice", "valid-then-twice", "alone", "twice-large"]), max_size=2, unique=True)
    return st.one_of(
        st.tuples(x, order).map(lambda t: {"x": t[0], "order": t[1]}),
        x.map(lambda v: {"x": v}),
        st.tuples(x, y, order).map(lambda t: {"x": t[0], "y": t[1], "order": t[2]}),
        st.tuples(x, pats, st.integers(0, 3)).map(lambda t: dict({"x": t[0], "bulk": True, "bulk_patterns": t[1]}, **({"with_report": True} if t[2] == 0 else {}))),
    )


# ---- atheris stage (thorough) -----------------------------------------------------------------------------------


def atheris_block_factory(runs):
    from vlib.fuzzstage import atheris_block_factory as f

    return f("c14_atheris.py", "C14_RESULT", runs, dictionary="c14.dict", max_len=64,
             seed_literals=["#ff0000", "rgb(255, 0, 0)", "rgba(255,0,0,0.5)", "hsl(0, 100%, 50%)", "hsla(120, 100%, 50%, 0.8)", "red", "255, 0, 0", "(1,2,3)", "rgb(100%, 0%, 0%)", "f00"])


def atheris_judge(case):
    return judge(case)


def subchecks(tier):
    q = tier == "quick"
    subs = [Hyp("junk-through-constructors", strategy, judge, examples=120000 if q else 3000000)]
    if not q:
        subs.append(Enum("atheris-strings", block=atheris_block_factory(1500000), judge=atheris_judge))
    return subs
