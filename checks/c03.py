"""C03 — a barely perceptible lightness fix, when one exists, is found and stays small."""
from hypothesis import strategies as st

from vlib import optim
from vlib.gen import colors as gc
from vlib.oracles import cie
from vlib.oracles import css as ocss
from vlib.oracles import oklab as ook
from vlib.oracles import wcag as ow
from vlib.runner import Hyp, Violation

ID = "C03"
LEVEL = "exploration"
RULE = (
    "Hypothesis pairs constructed 0-25% below the ACTIVE minimum (both polarities, dark/mid/light backgrounds; one in four with the text on the sRGB gamut surface, moving outwards) x large x "
    "very_readable, hex/rgb()/hsl()/tuple spellings. For each pair the harness scans the text's own OKLCH lightness line "
    "(own chroma and hue, per-channel clipping to sRGB) outward from the text on a 0.0001 grid (0.00002 in the thorough tier) until 40 consecutive distinct "
    "candidates are further than dE00 1.5, with its own OKLab/CIEDE2000/WCAG code; a pair is WITNESSED if a candidate within "
    "dE 1.5 reaches minimum + 0.05. Only witnessed pairs are judged: success in modes 0, 1 and 2 and dE(original, "
    "returned) <= 2.0. Non-trivial = witnessed pairs; distinct by (text, bg, large, very)."
)
ASSUMPTIONS = [
    "O-OKLAB / O-DE00 / O-WCAG oracles; +0.01 dE slack",
    "lightness grid 0.0001 (quick) / 0.00002 (thorough): a witness existing only between grid points is missed (missed obligation, never a false alarm)",
]
GRID = 0.0001


def selftest():
    ook.selftest()
    cie.selftest()
    ow.selftest()
    ocss.selftest()


def find_witness(text, bg, minimum):
    """Independent exhaustive scan of the text's lightness line. Returns (rgb, dE, ratio, direction) or None."""
    L, C, H = ook.rgb_to_oklch(text)
    for direction in (1, -1):
        k = 1
        far = 0
        last = None
        while True:
            Lp = L + direction * k * GRID
            k += 1
            if Lp < 0.0 or Lp > 1.0:
                break
            cand = ook.oklch_to_rgb(Lp, C, H)
            if cand == last:
                continue
            last = cand
            d = cie.de00(text, cand)
            if d > 1.5:
                far += 1
                if far >= 40:
                    break
                continue
            far = 0
            r = ow.ratio(cand, bg)
            if r >= minimum + 0.05:
                return cand, d, r, ("lighter" if direction > 0 else "darker")
    return None


def judge(case):
    from cm_colors import ColorPair

    t, b, large, very = gc.dec(case["text"]), gc.dec(case["bg"]), case["large"], case["very"]
    pair = ColorPair(t, b, large)
    if not pair.is_valid:
        return {"skip": "library-rejects-spelling"}
    text, bg = pair.text.rgb, pair.bg.rgb
    minimum = ow.minimum(large, very)
    if ow.ratio(text, bg) >= minimum:
        return {"cls": ["already-passes"]}
    w = find_witness(text, bg, minimum)
    if w is None:
        return {"cls": ["no-witness"]}
    wrgb, wd, wr, wdir = w
    Lt, Lb = ook.rgb_to_oklab(text)[0], ook.rgb_to_oklab(bg)[0]
    polarity = "text-lighter" if Lt > Lb else "text-darker"
    for mode in (0, 1, 2):
        c = dict(case, mode=mode)
        result, success = optim.call_make_readable(ColorPair(t, b, large), c)
        if success is not True:
            raise Violation("witnessed-but-not-fixed",
                            f"mode {mode} returned {result!r}, success={success!r}, although {wrgb} (same OKLCH chroma/hue, dE {wd:.3f}) reaches contrast {wr:.3f} >= {minimum}+0.05 "
                            f"against {bg}; text={text} ({polarity}, bg band {gc.band(bg)}); {optim.describe(c)}")
        rgbs = optim.readback_set(result)
        far = max(cie.de00(text, x) for x in rgbs)
        if far > 2.0 + 0.01:
            raise Violation("fix-too-far", f"mode {mode} returned {result!r} at CIEDE2000 {far:.4f} from {text} although a witness exists at dE {wd:.3f} ({wrgb}); {optim.describe(c)}")
    thr = minimum
    return {"nt": (text, bg, large, very), "cls": [f"witnessed:{polarity}:{gc.band(bg)}:min{thr}", f"witness-direction:{wdir}"] + (["gamut-surface-text"] if (255 in text or 0 in text) else []),
            "sample": {"text": case["text"], "bg": case["bg"], "large": large, "very": very, "witness": list(wrgb), "witness_dE": round(wd, 3), "witness_ratio": round(wr, 3)}}


@st.composite
def strategy(draw):
    large, very, _ = draw(gc.settings3())
    minimum = ow.minimum(large, very)
    if draw(st.integers(0, 3)) == 0:
        # text ON THE sRGB GAMUT SURFACE (one or two channels at 255, or at 0) that has to move further out along its own
        # lightness line: every candidate on that line is a CLIPPED colour, which is what the property's witness is made of
        c = list(draw(gc.rgb()))
        up = draw(st.booleans())
        ks = draw(st.lists(st.integers(0, 2), min_size=1, max_size=2, unique=True))
        c[ks[0]] = 255 if up else 0
        if len(ks) == 2:
            near = draw(st.integers(0, 20))  # the second channel at the extreme too, or within 20 of it (bright yellows, cyans, deep blues ...)
            c[ks[1]] = 255 - near if up else near
        if draw(st.booleans()):
            j = draw(st.integers(0, 2))
            if c[j] not in (0, 255):
                c[j] = draw(st.integers(0, 60)) if up else draw(st.integers(195, 255))  # strongly saturated
        text = tuple(c)
        delta = draw(st.floats(-0.06, 0.0)) if draw(st.integers(0, 9)) < 7 else draw(st.floats(-0.25, 0.0))
        e = (0, 0, 0) if up else (255, 255, 255)
        if draw(st.booleans()):
            o = draw(gc.rgb())
            e = tuple(min(o[k], text[k]) for k in range(3)) if up else tuple(max(o[k], text[k]) for k in range(3))
        bg = gc._closest_on_segment(text, e, minimum * (1.0 + delta))
        meta = {"thr": minimum, "delta": round(delta, 4), "lighter": up, "band": gc.band(bg), "surface": True}
    else:
        text, bg, meta = draw(gc.pair_near(thresholds=(minimum,), delta_lo=-0.25, delta_hi=0.0, tight=0.06))
    targ, tkind, _ = draw(gc.spell(text, kinds=["hex6", "rgb", "hsl", "tuple", "nohash", "named"], allow_translucent=False))
    barg, bkind, _ = draw(gc.spell(bg, kinds=["hex6", "rgb", "tuple"], allow_translucent=False))
    case = {"text": targ, "bg": barg, "large": large, "very": very, "tkind": tkind}
    w = draw(optim.warm())
    if w:
        case["warm"] = w
    return case


def subchecks(tier):
    global GRID
    q = tier == "quick"
    GRID = 0.0001 if q else 0.00002  # shards are forked after this call
    return [Hyp("witnessed-lightness-fix", strategy, judge, examples=32000 if q else 300000)]
