"""C16 — asking for less never fails: mode 2 covers mode 1, readable covers very readable."""
from hypothesis import strategies as st

from vlib import optim
from vlib.gen import colors as gc
from vlib.oracles import wcag as ow
from vlib.runner import Hyp, Violation

ID = "C16"
LEVEL = "exploration"
RULE = (
    "Hypothesis pairs weighted to those needing several default-mode steps (chromatic text 30-70% below the active minimum) "
    "plus pairs near each threshold and uniform pairs, x large_text x very_readable, hex/rgb()/hsl()/tuple spellings. "
    "(a) mode 1 success => mode 2 returns the identical value with success; (b) very_readable success in mode m => "
    "ordinary request succeeds in mode m. Step counts are observed by wrapping the multi-phase search in the harness "
    "process. Non-trivial: (a) mode-1 successes that took >= 2 search steps; (b) very_readable successes where the "
    "ordinary request returns a different colour. Distinct by (text, bg, large, very / mode)."
)
ASSUMPTIONS = ["pure metamorphic relations between library outputs; no oracle beyond equality",
               "step counting by attribute replacement of optimisation.generate_accessible_color (skipped if absent)"]


def selftest():
    ow.selftest()


class _Steps:
    """Counts calls of the multi-phase search made during a block."""

    def __enter__(self):
        from cm_colors.core import optimisation as opt

        self.opt = opt
        self.n = 0
        self.orig = getattr(opt, "generate_accessible_color", None)
        if self.orig is not None:
            def wrapped(*a, **k):
                self.n += 1
                return self.orig(*a, **k)

            opt.generate_accessible_color = wrapped
        return self

    def __exit__(self, *exc):
        if self.orig is not None:
            self.opt.generate_accessible_color = self.orig


def judge(case):
    from cm_colors import ColorPair

    t, b, large = gc.dec(case["text"]), gc.dec(case["bg"]), case["large"]
    pair = ColorPair(t, b, large)
    if not pair.is_valid:
        return {"skip": "library-rejects-spelling"}
    cls = []
    nt = None
    very = case["very"]
    w = case.get("warm")
    if w:
        # an earlier request on the same colours with another configuration must not influence what follows
        ColorPair(t, b, large if w.get("large") is None else w["large"]).make_readable(mode=w["mode"], very_readable=w["very"])
        cls.append("after-other-configuration")
    # (a) mode 1 => mode 2
    with _Steps() as s1:
        r1 = pair.make_readable(mode=1, very_readable=very)
    steps = s1.n
    if r1[1] is True:
        r2 = ColorPair(t, b, large).make_readable(mode=2, very_readable=very)
        if r2 != r1 or r2[1] is not True:
            raise Violation("mode2-differs-from-mode1", f"mode 1 returned {r1!r} but mode 2 returned {r2!r} for text={t!r} bg={b!r} large={large} very_readable={very}")
        cls.append(f"m1-success:steps{min(steps, 4)}")
        if steps >= 2:
            nt = ("a", pair.text.rgb, pair.bg.rgb, large, very)
    else:
        cls.append("m1-fail")
    # (b) very_readable success => ordinary success, each mode
    m = case["mode"]
    rv = ColorPair(t, b, large).make_readable(mode=m, very_readable=True)
    if rv[1] is True:
        ro = ColorPair(t, b, large).make_readable(mode=m, very_readable=False)
        if ro[1] is not True:
            raise Violation("ordinary-fails-where-very-succeeds", f"very_readable=True succeeded ({rv!r}) but very_readable=False returned {ro!r} for text={t!r} bg={b!r} large={large} mode={m}")
        cls.append(f"very-success:mode{m}:{'same' if ro[0] == rv[0] else 'different'}")
        if ro[0] != rv[0]:
            nt = nt or ("b", pair.text.rgb, pair.bg.rgb, large, m)
    else:
        cls.append(f"very-fail:mode{m}")
    return {"nt": nt, "cls": cls, "sample": {"text": case["text"], "bg": case["bg"], "large": large, "very": very, "mode": m,
                                             "mode1": [r1[0] if isinstance(r1[0], str) else list(r1[0]), r1[1]], "steps": steps}}


@st.composite
def strategy(draw):
    large, very, mode = draw(gc.settings3())
    minimum = ow.minimum(large, very)
    k = draw(st.integers(0, 10))
    if k == 10:
        # the background only just admits the minimum against pure white / black, and the text already sits next to that extreme
        ext = draw(st.sampled_from([(255, 255, 255), (0, 0, 0)]))
        other = draw(gc.rgb())
        u = draw(st.floats(0.0, 0.08))
        bg = gc._closest_on_segment(ext, other, minimum * (1.0 + u))  # colour on the segment ext->other whose ratio against ext is about minimum*(1+u)
        off = draw(st.tuples(st.integers(0, 24), st.integers(0, 24), st.integers(0, 24)))
        text = tuple(min(255, max(0, ext[i] - off[i] if ext[i] else off[i])) for i in range(3))
        meta = {}
    elif k < 5:
        text, bg, meta = draw(gc.pair_near(thresholds=(minimum,), delta_lo=-0.55, delta_hi=-0.08, tight=0.55))
    elif k < 8:
        text, bg, meta = draw(gc.pair_near(thresholds=(ow.minimum(large, False), ow.minimum(large, True)), delta_lo=-0.3, delta_hi=0.05))
    else:
        text, bg, meta = draw(optim.uniform_pairs())
    targ, tkind, _ = draw(gc.spell(text, kinds=["hex6", "rgb", "hsl", "tuple", "named"]))
    barg, bkind, _ = draw(gc.spell(bg, kinds=["hex6", "rgb", "tuple"], allow_translucent=False))
    case = {"text": targ, "bg": barg, "large": large, "very": very, "mode": mode, "tkind": tkind}
    w = draw(optim.warm())
    if w:
        case["warm"] = w
    return case


def subchecks(tier):
    q = tier == "quick"
    return [Hyp("implications", strategy, judge, examples=3200 if q else 80000)]
