"""C17 — no output or files unless asked; previews and reports never change the result."""
import os

from hypothesis import strategies as st

from vlib import optim
from vlib.gen import colors as gc
from vlib.oracles import css as ocss
from vlib.oracles import wcag as ow
from vlib.runner import Hyp, Violation, exc_bucket
from vlib.sandbox import Audit, Capture, Scratch

ID = "C17"
LEVEL = "exploration"
RULE = (
    "Hypothesis pairs (constructed near thresholds / uniform, so unchanged, fixed and failed outcomes all occur) in every "
    "spelling with extra weight on hsl() and translucent forms x modes x large x very_readable x show x save_report, and bulk "
    "lists x save_report; each case runs with an empty scratch directory as cwd, fd-level capture of stdout/stderr and an audit "
    "hook logging every file opened for writing / mkdir / rename / remove / chdir. Default path: nothing printed, nothing "
    "written. With show/save_report: no exception, identical return value, only the documented report file in cwd (iff "
    "requested), stdout non-empty for show. One fixed workload is additionally run in two CHILD interpreters (UTF-8 locale vs "
    "LC_ALL=C with UTF-8 mode and locale coercion off), and in a third with every warning turned into an error, and must give "
    "identical, error-free results. Non-trivial: show/save_report cases whose result is not a hex string; distinct "
    "by (text, bg, settings, flags)."
)
ASSUMPTIONS = ["sys.addaudithook sees every Python-level file open; fd-level dup2 capture sees print and rich output",
               "bulk save_report leg uses only valid entries (and the empty list)"]

QUICK_REPORT = "cm_colors_quick_report.html"
BULK_REPORT = "cm_colors_bulk_report.html"


def selftest():
    ow.selftest()
    ocss.selftest()
    # the observation machinery itself must see writes and prints
    with Scratch("c17self_"):
        with Capture() as cap:
            with Audit() as aud:
                print("x")
                open("f.txt", "w").close()
        from vlib.runner import HarnessError

        if cap.out != b"x\n" or not any(e[0] == "open-write" for e in aud.events):
            raise HarnessError("C17: capture / audit self-test failed")


def _fs_writes(events, cwd):
    return [e for e in events]


def judge(case):
    from cm_colors import ColorPair, make_readable_bulk

    t, b = gc.dec(case["text"]), gc.dec(case["bg"])
    large, very, mode = case["large"], case["very"], case["mode"]
    show, save = case.get("show", False), case.get("save", False)
    with Scratch("c17_") as sc:
        # ---- plain path: silent and write-free -------------------------------------------------------
        with Capture() as cap:
            with Audit() as aud:
                try:
                    pair = ColorPair(t, b, large)
                    _ = (pair.is_valid, pair.errors, pair.is_readable, pair.text.rgb, pair.bg.rgb, pair.text.to_hex())
                    plain = pair.make_readable(mode=mode, very_readable=very)
                    bulk_plain = make_readable_bulk([(t, b, large)], mode=mode, very_readable=very)
                except Exception as e:
                    raise Violation(exc_bucket(e), f"plain call raised {e!r}; {optim.describe(case)}")
        if cap.out or cap.err:
            raise Violation("default-path-prints", f"plain calls wrote stdout={cap.out[:120]!r} stderr={cap.err[:120]!r}; {optim.describe(case)}")
        if aud.events or os.listdir(sc.path):
            raise Violation("default-path-writes-files", f"plain calls touched the file system: {aud.events[:4]} / cwd now {os.listdir(sc.path)}; {optim.describe(case)}")
        if not pair.is_valid:
            return {"skip": "library-rejects-spelling"}
        cls = []
        nt = None
        # ---- show / save_report -------------------------------------------------------------------------
        if show or save:
            with Capture() as cap:
                with Audit() as aud:
                    try:
                        obj = ColorPair(t, b, large)
                        if case.get("same_object"):
                            # history on the same object: an earlier plain call with the OTHER very_readable value
                            obj.make_readable(mode=mode, very_readable=not very)
                        res = obj.make_readable(mode=mode, very_readable=very, show=show, save_report=save)
                    except Exception as e:
                        raise Violation("preview-raises:" + exc_bucket(e), f"make_readable(show={show}, save_report={save}) raised {e!r}; {optim.describe(case)}")
            if res != plain or type(res[0]) is not type(plain[0]):
                raise Violation("preview-changes-result", f"make_readable(show={show}, save_report={save}) = {res!r} but the plain call returns {plain!r}; {optim.describe(case)}")
            files = sorted(os.listdir(sc.path))
            want = [QUICK_REPORT] if save else []
            if files != want:
                raise Violation("unexpected-files", f"show={show} save_report={save}: cwd contains {files}, expected {want}; {optim.describe(case)}")
            outside = [e for e in aud.events if not (e[0] == "open-write" and os.path.realpath(str(e[1])) == os.path.realpath(os.path.join(sc.path, QUICK_REPORT)) and save)]
            if outside:
                raise Violation("writes-other-than-report", f"show={show} save_report={save}: file-system events {outside[:4]}; {optim.describe(case)}")
            if show and not cap.out.strip():
                raise Violation("show-prints-nothing", f"show=True produced no stdout; {optim.describe(case)}")
            if cap.err:
                raise Violation("preview-writes-stderr", f"show={show} save_report={save} wrote to stderr: {cap.err[:160]!r}; {optim.describe(case)}")
            if not show and save and b"Report generated" not in cap.out and cap.out.strip():
                pass
            for f in files:
                os.remove(os.path.join(sc.path, f))
            cls.append(f"flags:show={int(show)},save={int(save)}")
            if isinstance(res[0], str) and not res[0].startswith("#") or isinstance(res[0], tuple):
                nt = (str(case["text"]), str(case["bg"]), large, very, mode, show, save)
        # ---- bulk save_report ------------------------------------------------------------------------------
        if case.get("bulk_save") is not None:
            n_bulk = case["bulk_save"]
            filler = []
            if n_bulk > 3:
                # a long report: the entry once, then an already readable pair many times (cheap to process)
                filler = [("#000000", "#ffffff")] * (n_bulk - 1)
                filler_plain = make_readable_bulk(filler[:1], mode=mode, very_readable=very)
            entries = [(t, b, large)] + filler if filler else [(t, b, large)] * n_bulk
            with Capture() as cap:
                with Audit() as aud:
                    try:
                        out = make_readable_bulk(entries, mode=mode, very_readable=very, save_report=True)
                    except Exception as e:
                        raise Violation("bulk-report-raises:" + exc_bucket(e), f"make_readable_bulk(save_report=True) raised {e!r}; {optim.describe(case)}")
            want_out = bulk_plain + filler_plain * len(filler) if filler else bulk_plain * n_bulk
            if out != want_out:
                raise Violation("bulk-report-changes-result", f"bulk with save_report=True gives {out!r}, without {want_out!r}; {optim.describe(case)}")
            files = sorted(os.listdir(sc.path))
            want = [BULK_REPORT] if entries else []
            if files != want:
                raise Violation("unexpected-files-bulk", f"bulk save_report with {len(entries)} entries: cwd contains {files}, expected {want}; {optim.describe(case)}")
            bad = [e for e in aud.events if not (e[0] == "open-write" and os.path.basename(str(e[1])) == BULK_REPORT)]
            if bad:
                raise Violation("writes-other-than-report", f"bulk save_report: file-system events {bad[:4]}")
            if cap.err:
                raise Violation("preview-writes-stderr", f"bulk save_report wrote to stderr: {cap.err[:160]!r}")
            cls.append(f"bulk-save:{case['bulk_save']}")
    minimum = optim.minimum_for(case)
    passes = ow.ratio(pair.text.rgb, pair.bg.rgb) >= minimum
    outcome = "unchanged" if passes else ("fixed" if plain[1] else "failed")
    cls += [f"outcome:{outcome}", f"spell:{case['tkind']}"]
    return {"nt": nt, "cls": cls, "sample": {"text": case["text"], "bg": case["bg"], "mode": mode, "large": large, "very": very, "show": show, "save": save,
                                             "result": plain[0] if isinstance(plain[0], str) else list(plain[0]), "success": plain[1]}}


@st.composite
def strategy(draw):
    pairs = st.one_of(optim.near_pairs(delta_lo=-0.4, delta_hi=0.2), optim.near_pairs(delta_lo=-0.4, delta_hi=0.2), optim.uniform_pairs())
    kinds = None
    if draw(st.integers(0, 2)) == 0:
        kinds = ["hsl", "rgb", "rgbws", "tuple", "list", "named", "nohash", "hex3", "rgbpct"]
    case = draw(optim.spelled_pair_case(pairs, translucent_share=15, kinds=kinds))
    if draw(st.integers(0, 19)) == 0:
        # the lenient alpha spelling the parser documents: a bare number in (1, 100] read as a percentage
        c = draw(gc.rgb())
        a = draw(st.sampled_from([50, 75, 100, 2, 99.5]))
        case["text"] = f"rgba({c[0]}, {c[1]}, {c[2]}, {a})" if draw(st.booleans()) else gc.enc((c[0], c[1], c[2], a))
        case["tkind"] = "translucent:percent-alpha"
    if draw(st.integers(0, 19)) == 0:
        # the library's tuple spellings with string components (numbers or percentages as strings)
        c = draw(gc.rgb())
        comps = [str(v) for v in c] if draw(st.booleans()) else [f"{v * 100 / 255:.1f}%" for v in c]
        case["text"] = gc.enc(tuple(comps) if draw(st.booleans()) else comps)
        case["tkind"] = "tuple-of-strings"
    case["same_object"] = draw(st.booleans())
    case["show"] = draw(st.booleans())
    case["save"] = draw(st.booleans())
    if draw(st.integers(0, 5)) == 0:
        case["bulk_save"] = draw(st.sampled_from([0, 1, 2, 3]))
        if draw(st.integers(0, 19)) == 0:
            case["bulk_save"] = draw(st.sampled_from([201, 260]))  # a long report is still ONE documented file
    return case


from vlib.envleg import api_env_judge as env_judge, env_items  # noqa: E402


def subchecks(tier):
    q = tier == "quick"
    from vlib.runner import Enum

    return [Hyp("silent-by-default-and-pure-previews", strategy, judge, examples=3200 if q else 80000),
            Enum("c-locale-fresh-interpreter", judge=env_judge, items=env_items, shards=1)]
