"""C10 — OKLCH conversion matches the OKLab definition; lossless on all 8-bit colours."""
import math

from hypothesis import strategies as st

from vlib.oracles import oklab as ook
from vlib.runner import Enum, Hyp, Violation, exc_bucket

ID = "C10"
LEVEL = "exploration"
RULE = (
    "forward conversion, ranges, round trip and safe==plain enumerated on all 2^24 colours (both tiers, exhaustive); "
    "inverse compared with O-OKLAB on an L x C x H grid (C up to 0.5) and Hypothesis triples (C tail to 5 and beyond, "
    "H in [-720,1080]); achromatic axis (C=0) on a fine L grid; safe variants on invalid finite input; a history leg hands out-of-range "
    "and non-integer channel values to the plain public functions and then re-checks the valid colours a sloppy cache key would "
    "confuse them with (clamped, wrapped, packed/unpacked base 256 and 255). Non-trivial: "
    "every enumerated colour / grid point; for Hypothesis triples those that are out of the sRGB gamut or invalid."
)
ASSUMPTIONS = [
    "O-OKLAB from Ottosson's published matrices, validated against CSS Color 4 sample values",
    "tolerance 1e-9 on L and Cartesian a/b; inverse may differ by 1 only when the oracle's pre-rounding value is within 1e-6 of a tie",
    "rgb_to_oklch_safe on out-of-range RGB: only 'no exception, three finite floats, achromatic' is judged",
]


def selftest():
    ook.selftest()


def _conv():
    from cm_colors.core import conversions

    return conversions


def _check_forward(c, cv):
    try:
        L, C, H = cv.rgb_to_oklch(c)
    except Exception as e:
        raise Violation(exc_bucket(e), f"rgb_to_oklch{c} raised {e!r}")
    oL, oa, ob = ook.rgb_to_oklab(c)
    if not (0.0 <= L <= 1.0) or not (C >= 0.0) or not (0.0 <= H < 360.0):
        raise Violation("forward-range", f"rgb_to_oklch{c} = {(L, C, H)} outside L[0,1] C>=0 H[0,360)")
    hr = math.radians(H)
    if abs(L - oL) > 1e-9 or abs(C * math.cos(hr) - oa) > 1e-9 or abs(C * math.sin(hr) - ob) > 1e-9:
        raise Violation("forward-mismatch", f"rgb_to_oklch{c} = {(L, C, H)}; OKLab definition gives L={oL}, a={oa}, b={ob}")
    try:
        back = cv.oklch_to_rgb((L, C, H))
    except Exception as e:
        raise Violation(exc_bucket(e), f"oklch_to_rgb(rgb_to_oklch{c}) raised {e!r}")
    if tuple(back) != c:
        raise Violation("roundtrip", f"oklch_to_rgb(rgb_to_oklch{c}) = {back}")
    s = cv.rgb_to_oklch_safe(c)
    if tuple(s) != (L, C, H):
        raise Violation("safe-forward-differs", f"rgb_to_oklch_safe{c} = {s} but plain = {(L, C, H)}")
    sb = cv.oklch_to_rgb_safe((L, C, H))
    if tuple(sb) != c:
        raise Violation("safe-inverse-differs", f"oklch_to_rgb_safe(rgb_to_oklch{c}) = {sb}")


def forward_block(shard, nshards):
    cv = _conv()
    viol = []
    n = 0
    for r in range(shard, 256, nshards):
        for g in range(256):
            for b in range(256):
                c = (r, g, b)
                try:
                    _check_forward(c, cv)
                except Violation as v:
                    if len(viol) < 8:
                        viol.append({"bucket": v.bucket, "msg": v.msg, "case": {"rgb": list(c)}})
                n += 1
    c = (shard, 99, 201)
    return {"evals": n, "nt": n, "violations": viol, "classes": {"forward+roundtrip": n},
            "samples": [{"rgb": list(c), "oklch_oracle": list(ook.rgb_to_oklch(c))}]}


def forward_judge(case):
    _check_forward(tuple(case["rgb"]), _conv())


def _valid_rgb(t):
    return (isinstance(t, tuple) and len(t) == 3 and all(isinstance(v, int) and not isinstance(v, bool) and 0 <= v <= 255 for v in t))


def _check_inverse(L, C, H, cv, plain=True):
    """valid triple (L in [0,1], C >= 0): plain and safe must equal the oracle."""
    fn = cv.oklch_to_rgb
    try:
        got = fn((L, C, H))
    except Exception as e:
        raise Violation(exc_bucket(e), f"oklch_to_rgb({L},{C},{H}) raised {e!r}")
    if not _valid_rgb(got):
        raise Violation("inverse-invalid", f"oklch_to_rgb({L},{C},{H}) = {got!r} is not a valid 8-bit colour")
    try:
        pre = ook.oklch_to_rgb_pre(L, C, H)
    except OverflowError:
        pre = None
    if pre is None or any(p != p for p in pre):
        return got  # the reference overflows for astronomically large chroma: only "valid colour, no exception" is judged
    for k in range(3):
        want = int(round(pre[k]))
        if got[k] != want:
            frac = pre[k] - math.floor(pre[k])
            if abs(frac - 0.5) < 1e-6 and abs(got[k] - pre[k]) <= 0.5 + 1e-6:
                continue
            raise Violation("inverse-mismatch", f"oklch_to_rgb({L},{C},{H}) = {got}, OKLab definition gives {tuple(round(p, 4) for p in pre)}")
    if 0.0 <= H <= 360.0:
        s = cv.oklch_to_rgb_safe((L, C, H))
        if tuple(s) != tuple(got):
            raise Violation("safe-inverse-differs", f"oklch_to_rgb_safe({L},{C},{H}) = {s}, plain = {got}")
    if C == 0:
        if max(got) - min(got) > 1:
            raise Violation("achromatic-not-grey", f"oklch_to_rgb({L},0,{H}) = {got}")
        if L == 0 and got != (0, 0, 0):
            raise Violation("black", f"oklch_to_rgb(0,0,{H}) = {got}")
        if L == 1 and got != (255, 255, 255):
            raise Violation("white", f"oklch_to_rgb(1,0,{H}) = {got}")
    return got


def grid_block_factory(nl, nc, nh):
    def block(shard, nshards):
        cv = _conv()
        viol = []
        n = 0
        oog = 0
        for i in range(shard, nl, nshards):
            L = i / (nl - 1)
            for j in range(nc):
                C = 0.5 * j / (nc - 1)
                for k in range(nh):
                    H = 360.0 * k / (nh - 1)
                    try:
                        _check_inverse(L, C, H, cv)
                    except Violation as v:
                        if len(viol) < 8:
                            viol.append({"bucket": v.bucket, "msg": v.msg, "case": {"L": L, "C": C, "H": H}})
                    n += 1
        return {"evals": n, "nt": n, "violations": viol, "classes": {"inverse-grid": n},
                "samples": [{"L": shard / (nl - 1), "C": 0.25, "H": 123.0, "oracle_rgb": list(ook.oklch_to_rgb(shard / (nl - 1), 0.25, 123.0))}]}

    return block


def grey_axis_block(shard, nshards):
    cv = _conv()
    viol = []
    n = 0
    N = 20000
    for i in range(shard, N + 1, nshards):
        L = i / N
        for H in (0.0, 90.0, 359.0):
            try:
                _check_inverse(L, 0.0, H, cv)
            except Violation as v:
                if len(viol) < 5:
                    viol.append({"bucket": v.bucket, "msg": v.msg, "case": {"L": L, "C": 0.0, "H": H}})
            n += 1
    return {"evals": n, "nt": n, "violations": viol, "classes": {"achromatic-axis": n}, "samples": [{"L": shard / N, "C": 0.0, "H": 0.0}]}


def inverse_judge(case):
    L, C, H = case["L"], case["C"], case["H"]
    got = _check_inverse(L, C, H, _conv())
    try:
        pre = ook.oklab_to_linear(L, C * math.cos(math.radians(H)), C * math.sin(math.radians(H)))
    except OverflowError:
        pre = (float("inf"),) * 3
    oog = any(not (0 <= p <= 1) for p in pre)
    if case.get("as_list"):
        cv = _conv()
        try:
            lg = cv.oklch_to_rgb([L, C, H])
            ls = cv.oklch_to_rgb_safe([L, C, H])
        except Exception as e:
            raise Violation("list-argument:" + exc_bucket(e), f"oklch_to_rgb([{L}, {C}, {H}]) raised {e!r} (the tuple form works)")
        if tuple(lg) != tuple(got) or ((0.0 <= H <= 360.0) and tuple(ls) != tuple(got)):
            raise Violation("list-argument-differs", f"oklch_to_rgb / _safe on the LIST [{L}, {C}, {H}] give {lg} / {ls}, on the tuple {got}")
    return {"nt": ("inv", L, C, H) if oog else None, "cls": ["out-of-gamut" if oog else "in-gamut"], "sample": {"L": L, "C": C, "H": H, "rgb": list(got)}}


def inverse_strategy():
    L = st.one_of(st.floats(0.0, 1.0, allow_nan=False), st.sampled_from([0.0, 1.0, 0.5, 1e-12, 1 - 1e-12]))
    C = st.one_of(st.floats(0.0, 0.5, allow_nan=False), st.floats(0.0, 0.5, allow_nan=False), st.floats(0.5, 5.0, allow_nan=False), st.sampled_from([0.0, 1e-12, 0.4, 100.0, 1e3]),
                  st.floats(1e3, 1e300, allow_nan=False, allow_infinity=False))
    H = st.one_of(st.floats(0.0, 360.0, allow_nan=False), st.floats(0.0, 360.0, allow_nan=False), st.floats(-720.0, 1080.0, allow_nan=False), st.sampled_from([0.0, 90.0, 180.0, 270.0, 360.0]))
    return st.tuples(L, C, H, st.integers(0, 7)).map(lambda t: dict({"L": t[0], "C": t[1], "H": t[2]}, **({"as_list": True} if t[3] == 0 else {})))


def safe_invalid_judge(case):
    cv = _conv()
    if case["kind"] == "oklch":
        t = (case["L"], case["C"], case["H"])
        try:
            got = cv.oklch_to_rgb_safe(t)
        except Exception as e:
            raise Violation(exc_bucket(e), f"oklch_to_rgb_safe{t} raised {e!r}")
        if not _valid_rgb(tuple(got)) or not isinstance(got, tuple):
            raise Violation("safe-invalid-output", f"oklch_to_rgb_safe{t} = {got!r} is not a valid 8-bit colour")
        valid = 0.0 <= t[0] <= 1.0 and t[1] >= 0 and 0.0 <= t[2] <= 360.0
        return {"nt": None if valid else ("safe", t), "cls": ["oklch-valid" if valid else "oklch-invalid"], "sample": {"oklch": list(t), "rgb": list(got)}}
    t = tuple(case["rgb"])
    try:
        got = cv.rgb_to_oklch_safe(t)
    except Exception as e:
        raise Violation(exc_bucket(e), f"rgb_to_oklch_safe{t} raised {e!r}")
    ok = isinstance(got, tuple) and len(got) == 3 and all(isinstance(v, (int, float)) and math.isfinite(v) for v in got)
    if not ok:
        raise Violation("safe-invalid-output", f"rgb_to_oklch_safe{t} = {got!r}")
    valid = all(0 <= v <= 255 for v in t)
    if not valid:
        if got[1] != 0:
            raise Violation("safe-fallback-not-achromatic", f"rgb_to_oklch_safe{t} = {got!r}")
        grey = 0.299 * t[0] + 0.587 * t[1] + 0.114 * t[2]
        if 0 <= grey <= 255 and not (0.0 <= got[0] <= 1.0 and 0.0 <= got[2] <= 360.0):
            raise Violation("safe-fallback-range", f"rgb_to_oklch_safe{t} = {got!r}")
    else:
        if tuple(got) != tuple(cv.rgb_to_oklch(t)):
            raise Violation("safe-forward-differs", f"rgb_to_oklch_safe{t} = {got} differs from plain")
    return {"nt": None if valid else ("safe-rgb", t), "cls": ["rgb-valid" if valid else "rgb-invalid"], "sample": {"rgb": list(t), "oklch": list(got)}}


def _aliases(t):
    """Valid 8-bit colours that a sloppy cache key could confuse with the (possibly invalid / non-integer) input t."""
    out = set()
    try:
        ints = [int(v) for v in t]
    except (ValueError, OverflowError):
        return out
    out.add(tuple(min(255, max(0, v)) for v in ints))          # clamped
    out.add(tuple(v % 256 for v in ints))                       # wrapped
    for base in (256, 255):                                      # packed into one number, then unpacked
        key = (ints[0] * base + ints[1]) * base + ints[2]
        if key >= 0:
            out.add(((key // (256 * 256)) % 256, (key // 256) % 256, key % 256))
    return {c for c in out if all(0 <= v <= 255 for v in c)}


def poison_judge(case):
    """Out-of-range or non-integer channel values handed to the PLAIN public functions (whatever they do with them)
    must not change what valid 8-bit colours convert to afterwards."""
    cv = _conv()
    t = tuple(case["rgb"])
    for fn, arg in ((cv.rgb_to_oklch, t), (cv.rgb_to_oklch_safe, t), (getattr(cv, "rgb_to_lab", None), t)):
        if fn is None:
            continue
        try:
            fn(arg)
        except Exception:
            pass
    lin = getattr(cv, "rgb_to_linear", None)
    if lin is not None:
        for v in t:
            try:
                lin(v)
            except Exception:
                pass
    checked = 0
    for c in sorted(_aliases(t)):
        _check_forward(c, cv)
        # the same colour as a LIST: validated wrappers accept it, so plain and safe must agree with the tuple form
        try:
            lf, ls = cv.rgb_to_oklch(list(c)), cv.rgb_to_oklch_safe(list(c))
        except Exception as e:
            raise Violation("list-argument:" + exc_bucket(e), f"rgb_to_oklch({list(c)}) raised {e!r} (the tuple form works)")
        if tuple(lf) != tuple(cv.rgb_to_oklch(c)) or tuple(ls) != tuple(lf):
            raise Violation("list-argument-differs", f"rgb_to_oklch / _safe on the LIST {list(c)} give {lf} / {ls}, on the tuple {cv.rgb_to_oklch(c)}")
        checked += 1
    return {"nt": ("poison", str(t)) if checked else None, "cls": [f"poison:{'float' if any(isinstance(v, float) for v in t) else 'int'}"],
            "sample": {"poison": list(t), "rechecked": [list(c) for c in sorted(_aliases(t))[:3]]}}


def poison_strategy():
    ch = st.one_of(st.integers(0, 255), st.integers(0, 255), st.integers(-300, 700), st.floats(0, 255.999, allow_nan=False).map(lambda v: round(v, 3)),
                   st.integers(256, 600))
    return st.tuples(ch, ch, ch).map(lambda t: {"rgb": list(t)})


def safe_invalid_strategy():
    f = st.floats(-1e6, 1e6, allow_nan=False, allow_infinity=False)
    Ls = st.one_of(st.floats(-2.0, 3.0, allow_nan=False), f)
    Cs = st.one_of(st.floats(-1.0, 1.0, allow_nan=False), f)
    Hs = st.one_of(st.floats(-720.0, 1080.0, allow_nan=False), f)
    okl = st.tuples(Ls, Cs, Hs).map(lambda t: {"kind": "oklch", "L": t[0], "C": t[1], "H": t[2]})
    ch = st.one_of(st.integers(-300, 600), st.integers(0, 255))
    rgbs = st.tuples(ch, ch, ch).map(lambda t: {"kind": "rgb", "rgb": list(t)})
    return st.one_of(okl, okl, rgbs)


def subchecks(tier):
    q = tier == "quick"
    grid = (51, 26, 61) if q else (101, 51, 121)
    return [
        Enum("forward-roundtrip-all-2^24", block=forward_block, judge=forward_judge, exhaustive=True),
        Enum("inverse-grid", block=grid_block_factory(*grid), judge=inverse_judge, exhaustive=False),
        Enum("achromatic-axis", block=grey_axis_block, judge=inverse_judge),
        Hyp("inverse-random", inverse_strategy, inverse_judge, examples=40000 if q else 800000),
        Hyp("safe-variants-invalid-input", safe_invalid_strategy, safe_invalid_judge, examples=20000 if q else 400000),
        Hyp("valid-colours-after-invalid-calls", poison_strategy, poison_judge, examples=16000 if q else 320000),
    ]
