"""C11 — CIE Lab and CIEDE2000 agree with the CIE definitions."""
import math

from hypothesis import strategies as st

from vlib.gen import colors as gc
from vlib.oracles import cie
from vlib.runner import Enum, Hyp, Violation, exc_bucket

ID = "C11"
LEVEL = "exploration"
RULE = (
    "Lab: all 2^24 colours enumerated against O-LAB (exhaustive, both tiers), incl. rgb_to_xyz/xyz_to_lab composition. "
    "dE2000: the 34 Sharma-Wu-Dalal Lab pairs fed directly (RGB->Lab lookup replaced by identity in the harness "
    "process, both argument orders); a stride sample of the 2^24 colours each against its 6 unit-step neighbours; "
    "Hypothesis pairs in classes uniform / near-neutral / hue-wrap-straddling / blue-region (rotation term) / identical. "
    "Non-trivial: every Lab colour; dE pairs in the neighbour, near-neutral, hue-wrap or blue classes. Distinct = distinct pair."
)
ASSUMPTIONS = [
    "O-LAB / O-DE00 (vlib/oracles/cie.py) reproduce all 34 published pairs to 1e-4 (self-test at every run)",
    "agreement tolerance 0.05 as stated by the property; symmetry tolerance 1e-9",
]


def selftest():
    cie.selftest()


def _mods():
    from cm_colors.core import color_metrics, conversions

    return conversions, color_metrics


def _check_lab(c, cv):
    try:
        lab = cv.rgb_to_lab(c)
        xyz = cv.rgb_to_xyz(c)
        lab2 = cv.xyz_to_lab(xyz)
    except Exception as e:
        raise Violation(exc_bucket(e), f"Lab conversion of {c} raised {e!r}")
    want = cie.rgb_to_lab(c)
    if any(not (abs(lab[i] - want[i]) <= 0.05) for i in range(3)):
        raise Violation("lab-mismatch", f"rgb_to_lab{c} = {tuple(lab)}, CIE definition gives {want}")
    if tuple(lab2) != tuple(lab):
        raise Violation("lab-composition", f"xyz_to_lab(rgb_to_xyz{c}) = {lab2} != rgb_to_lab = {lab}")
    ox = cie.rgb_to_xyz(c)
    if any(abs(xyz[i] - ox[i]) > 0.02 for i in range(3)):
        raise Violation("xyz-mismatch", f"rgb_to_xyz{c} = {xyz}, expected {ox}")


def lab_block(shard, nshards):
    cv, _ = _mods()
    viol = []
    n = 0
    for r in range(shard, 256, nshards):
        for g in range(256):
            for b in range(256):
                c = (r, g, b)
                try:
                    _check_lab(c, cv)
                except Violation as v:
                    if len(viol) < 8:
                        viol.append({"bucket": v.bucket, "msg": v.msg, "case": {"rgb": list(c)}})
                n += 1
    c = (shard, 140, 31)
    return {"evals": n, "nt": n, "violations": viol, "classes": {"lab": n}, "samples": [{"rgb": list(c), "lab_oracle": list(cie.rgb_to_lab(c))}]}


def lab_judge(case):
    _check_lab(tuple(case["rgb"]), _mods()[0])


def _check_de(a, b, cm):
    try:
        d1 = cm.calculate_delta_e_2000(a, b)
        d2 = cm.calculate_delta_e_2000(b, a)
    except Exception as e:
        raise Violation(exc_bucket(e), f"delta E of {a} {b} raised {e!r}")
    for d in (d1, d2):
        if not isinstance(d, (int, float)) or not math.isfinite(d) or d < 0:
            raise Violation("de-not-finite-nonneg", f"dE{a}{b} = {d!r}")
    if abs(d1 - d2) > 1e-9:
        raise Violation("de-asymmetric", f"dE{a}{b} = {d1!r} but swapped = {d2!r}")
    if a == b:
        if d1 != 0:
            raise Violation("de-identical-nonzero", f"dE of identical {a} = {d1!r}")
        return d1
    want = cie.de00(a, b)
    if abs(d1 - want) > 0.05:
        raise Violation("de-mismatch", f"dE{a}{b} = {d1!r}, CIEDE2000 reference = {want!r}")
    return d1


def neigh_block_factory(stride):
    def block(shard, nshards):
        _, cm = _mods()
        viol = []
        n = 0
        idx = 0
        for r in range(shard, 256, nshards):
            for g in range(256):
                for b in range(256):
                    idx += 1
                    if idx % stride:
                        continue
                    c = (r, g, b)
                    for k in range(3):
                        for d in (-1, 1):
                            v = c[k] + d
                            if not 0 <= v <= 255:
                                continue
                            o = tuple(v if i == k else c[i] for i in range(3))
                            try:
                                _check_de(c, o, cm)
                            except Violation as e:
                                if len(viol) < 8:
                                    viol.append({"bucket": e.bucket, "msg": e.msg, "case": {"a": list(c), "b": list(o)}})
                            n += 1
        return {"evals": n, "nt": n, "violations": viol, "classes": {"unit-neighbours": n}, "samples": [{"a": [shard, 10, 20], "b": [shard, 11, 20]}]}

    return block


def sharma_items(shard, nshards):
    rows = cie.sharma_pairs()
    return [{"i": i, "lab1": list(r[0]), "lab2": list(r[1]), "want": r[2]} for i, r in enumerate(rows)][shard::nshards]


def sharma_judge(case):
    cv, cm = _mods()
    if not hasattr(cm, "rgb_to_lab") or not hasattr(cm, "calculate_delta_e_2000"):
        return {"skip": "no-lab-lookup-to-replace"}
    orig = cm.rgb_to_lab
    cm.rgb_to_lab = lambda x: tuple(x)
    try:
        l1, l2 = tuple(case["lab1"]), tuple(case["lab2"])
        for a, b in ((l1, l2), (l2, l1)):
            try:
                got = cm.calculate_delta_e_2000(a, b)
            except Exception as e:
                raise Violation(exc_bucket(e), f"dE on Lab pair {a} {b} raised {e!r}")
            if not (abs(got - case["want"]) <= 1e-3):
                raise Violation("sharma-pair", f"Sharma pair #{case['i']+1} {a} {b}: got {got!r}, published {case['want']}")
    finally:
        cm.rgb_to_lab = orig
    return {"nt": ("sharma", case["i"]), "cls": ["sharma"]}


def pair_judge(case):
    a, b = tuple(case["a"]), tuple(case["b"])
    d = _check_de(a, b, _mods()[1])
    cls = case.get("cls", "uniform")
    nt = None if cls in ("uniform", "identical") else ("de", a, b)
    return {"nt": nt, "cls": [f"de:{cls}"], "sample": {"a": list(a), "b": list(b), "dE": d, "class": cls}}


def pair_strategy():
    ch = st.integers(0, 255)

    def clampc(v):
        return max(0, min(255, v))

    uniform = st.tuples(gc.rgb(), gc.rgb()).map(lambda t: {"a": list(t[0]), "b": list(t[1]), "cls": "uniform"})
    # near-neutral: greys perturbed by a few units per channel
    small = st.integers(-4, 4)
    nn = st.tuples(ch, st.tuples(small, small, small), ch, st.tuples(small, small, small)).map(
        lambda t: {"a": [clampc(t[0] + d) for d in t[1]], "b": [clampc(t[2] + d) for d in t[3]], "cls": "near-neutral"}
    )
    # hue-wrap: a colour and (approximately) its RGB complement / a small rotation around red (Lab hue ~ 0/360)
    def wrap(t):
        c, e = t
        comp = [clampc(255 - c[i] + e[i]) for i in range(3)]
        return {"a": list(c), "b": comp, "cls": "hue-wrap"}

    hw = st.tuples(gc.rgb(), st.tuples(small, small, small)).map(wrap)
    redish = st.tuples(st.integers(150, 255), st.integers(0, 60), st.integers(0, 90), st.tuples(st.integers(-30, 30), st.integers(-30, 30))).map(
        lambda t: {"a": [t[0], t[1], t[2]], "b": [t[0], clampc(t[1] + t[3][0]), clampc(t[2] + t[3][1])], "cls": "hue-wrap"}
    )
    blue = st.tuples(st.integers(0, 120), st.integers(0, 120), st.integers(120, 255), st.tuples(st.integers(-25, 25), st.integers(-25, 25), st.integers(-25, 25))).map(
        lambda t: {"a": [t[0], t[1], t[2]], "b": [clampc(t[0] + t[3][0]), clampc(t[1] + t[3][1]), clampc(t[2] + t[3][2])], "cls": "blue-region"}
    )
    ident = gc.rgb().map(lambda c: {"a": list(c), "b": list(c), "cls": "identical"})
    return st.one_of(uniform, uniform, nn, nn, hw, redish, blue, ident)


def subchecks(tier):
    q = tier == "quick"
    return [
        Enum("lab-all-2^24", block=lab_block, judge=lab_judge, exhaustive=True),
        Enum("sharma-34-lab-pairs", judge=sharma_judge, items=sharma_items, shards=1, exhaustive=True),
        Enum("de-unit-neighbours", block=neigh_block_factory(512 if q else 16), judge=pair_judge),
        Hyp("de-pairs", pair_strategy, pair_judge, examples=60000 if q else 1500000),
        # "never raises" also under the C locale and with warnings turned into errors (child interpreters)
        Enum("environment-child-interpreters", judge=_env_judge, items=_env_items, shards=1),
        Enum("cold-start-threads", judge=_cold_judge, items=_cold_items, shards=6),
    ]


def _cold_items(shard, nshards):
    return [{"child": i} for i in range(6) if i % nshards == shard]


def _cold_judge(case):
    """'never raises' also for the very first Lab / CIEDE2000 calls of a fresh interpreter made from 8 threads at once."""
    import json
    import os
    import subprocess
    import sys

    from vlib.runner import VERIF_DIR

    env = dict(os.environ)
    env["PYTHONPATH"] = os.pathsep.join([os.path.join(env.get("VERIF_REPO", "/repo"), "src"), VERIF_DIR])
    p = subprocess.run([sys.executable, "-m", "vlib.c15ops", "--cold", "[]"], env=env, capture_output=True, text=True, cwd=VERIF_DIR, timeout=600)
    if p.returncode != 0:
        raise Violation("cold-start-crash", f"fresh interpreter with concurrent first calls died: {p.stderr[-300:]}")
    doc = json.loads(p.stdout.strip().splitlines()[-1])
    if doc["errors"]:
        raise Violation("cold-start-thread-raises-or-differs", f"first Lab / dE / OKLCH calls made concurrently from 8 threads in a fresh interpreter: {doc['errors'][:2]}")
    return {"nt": ("cold", case["child"]), "cls": ["cold-start-threads"], "sample": {"child": case["child"]}}


def _env_judge(case):
    from vlib.envleg import api_env_judge

    return api_env_judge(case)


def _env_items(shard, nshards):
    from vlib.envleg import env_items

    return env_items(shard, nshards)
