"""C08 — CLI: what cm-colors reports is what it wrote, and every rule is accounted for."""
import os
import subprocess
import sys

from hypothesis import strategies as st

from vlib import cli
from vlib.gen import sheets
from vlib.oracles import css as ocss
from vlib.oracles import htmlo
from vlib.oracles import sheet as osh
from vlib.oracles import wcag as ow
from vlib.runner import Enum, HarnessError, Hyp, Violation, exc_bucket

ID = "C08"
LEVEL = "exploration"
RULE = (
    "Hypothesis G-sheet: stylesheets of 1-7 style rules with unique marker selectors (.rN inside compound / attribute / escaped / "
    "non-ASCII selectors), colour / background-color declarations in every supported spelling (hex variants, rgb(), rgb%, hsl(), "
    "named, rgba()), repeated declarations, !important spellings, upper-case property names, custom properties in :root/html "
    "(chained, with fallbacks, undefined, non-colour), colours declared directly in :root/html, unsupported values, nesting in "
    "@media/@supports to depth 3, unrelated at-rules and comments x --mode x --premium x --default-bg (absent / light / dark / "
    "random). Each sheet is run in-process through the real click command in a scratch directory; stdout counts, the 'Could not "
    "tune' list, the report cards and the written _cm.css are read back independently (tinycss2 tokenizer + own var() resolver + "
    "O-CSS + O-WCAG + the Python API). Non-trivial: sheets with >= 1 adjusted rule and one of {custom property use, nesting, "
    "non-default background, --premium, non-hex spelling}; distinct by (sheet, settings). Sheets in which one custom property "
    "is shared by several rules are excluded by construction from the main campaign (known finding F6) and exercised in a "
    "small dedicated campaign. A directory campaign runs 2-3 sheets in one invocation (one sheet defines custom properties that "
    "another uses without defining them) and judges every file's cards against that file's own output."
)
ASSUMPTIONS = [
    "tinycss2's tokenizer decides what the written file means; var() is resolved with CSS semantics against the file's own :root/html rules",
    "the oracle does not demand that a fixable or readable rule is never classed as 'needs attention' (the property does not say so)",
    "rules counted 'already readable' whose colour O-CSS cannot read (outside the generated domain) are not judged",
]


def selftest():
    ocss.selftest()
    ow.selftest()
    osh.selftest()
    htmlo.selftest()


# ---- model of the input ------------------------------------------------------------------------------------------


def coloured_rules(nf):
    """[(id, rule)] for every style rule (top level and in @media/@supports) with a `color` declaration.
    id = ('m', N) for marker rules, ('root', kind, k) for the k-th :root / html rule."""
    out = []
    rootn = {}
    for path, r in osh.style_rules(nf):
        kind = osh.selector_kind(r) if len(path) == 1 else None
        if kind:
            k = rootn.get(kind, 0)
            rootn[kind] = k + 1
            rid = ("root", kind, k)
        else:
            m = osh.marker_of(r)
            rid = ("m", m) if m is not None else ("path",) + path
        if osh.last_decl(r, "color") is not None:
            out.append((rid, r))
    return out


def all_rules_by_id(nf):
    out = {}
    rootn = {}
    for path, r in osh.style_rules(nf):
        kind = osh.selector_kind(r) if len(path) == 1 else None
        if kind:
            k = rootn.get(kind, 0)
            rootn[kind] = k + 1
            out[("root", kind, k)] = r
        else:
            m = osh.marker_of(r)
            out[("m", m) if m is not None else ("path",) + path] = r
    return out


def ids_from_selectors(selectors, coloured):
    """Map reported selector texts to rule ids (marker, or the next :root/html rule in document order)."""
    ids = []
    root_used = {}
    root_avail = {}
    for rid, _ in coloured:
        if rid[0] == "root":
            root_avail.setdefault(rid[1], []).append(rid)
    for s in selectors:
        m = osh.MARK_RE.search(s)
        if m:
            ids.append(("m", int(m.group(1))))
            continue
        key = s.strip()
        if key in (":root", "html"):
            k = root_used.get(key, 0)
            root_used[key] = k + 1
            lst = root_avail.get(key, [])
            ids.append(lst[k] if k < len(lst) else ("unknown", s))
        else:
            ids.append(("unknown", s))
    return ids


def shared_vars(nf, default_bg=None):
    """Custom property names referenced by more than one color/background-color declaration, by another custom property, or
    by a declaration and the --default-bg option."""
    refs = {}
    if default_bg and "var(" in default_bg:
        import re

        for nm in re.findall(r"var\(\s*(--[^\s,)]+)", default_bg):
            refs[nm] = refs.get(nm, 0) + 1
    for _, r in osh.style_rules(nf):
        for d in osh.decl_list(r):
            vn = osh.var_name_of(d[2])
            if vn is None:
                # var() somewhere inside a longer value also counts as a reference
                for t in d[2]:
                    if t[0] == "function" and t[1] == "var":
                        inner = osh.var_name_of((t,))
                        if inner:
                            refs[inner[0]] = refs.get(inner[0], 0) + 1
                continue
            refs[vn[0]] = refs.get(vn[0], 0) + 1
    return {n for n, c in refs.items() if c > 1}


def _read(colour_str):
    try:
        return ocss.read_input_set(colour_str)
    except ocss.CssReject:
        return None


def pair_strings(rule, props, default_bg):
    """(text string or None, bg string) with CSS var() semantics."""
    cd = osh.last_decl(rule, "color")
    bd = osh.last_decl(rule, "background-color")
    t = osh.resolve(cd[2], props) if cd else None
    text = osh.colour_string(t) if t else None
    if bd is not None:
        b = osh.resolve(bd[2], props)
        bg = osh.colour_string(b) if b else None
    else:
        bg = default_bg if default_bg is not None else "white"
        if "var(" in bg:
            import tinycss2

            b = osh.resolve(osh.tokens_nf(tinycss2.parse_component_value_list(bg)), props)
            bg = osh.colour_string(b) if b else None
    return text, bg


def judge(case):
    """One CLI run over one stylesheet (case["css"]) or over a directory of several (case["files"], case["target"])."""
    settings = case["settings"]
    mode, premium, dbg = settings.get("mode", 1), bool(settings.get("premium")), settings.get("default_bg")
    if "files" in case:
        files, target = dict(case["files"]), case["target"]
    else:
        files, target = {case.get("fname", "s.css"): case["css"]}, case.get("fname", "s.css")
    what = f"files {files!r} target {target!r} settings {settings}" if "files" in case else f"sheet {case['css']!r} settings {settings}"
    nf_ins = {}
    for rel, css in files.items():
        nf_ins[rel] = osh.normal(css)
        if osh.has_error(nf_ins[rel]):
            raise HarnessError(f"generated sheet does not parse cleanly: {css!r}")
    if len({os.path.basename(r) for r in files}) != len(files):
        raise HarnessError("generated tree has two files with the same base name")
    run = cli.run_cli(files, target, settings)
    if run["exit"] != 0 or run["exception"]:
        raise Violation("cli-failed", f"cm-colors exited {run['exit']} ({run['exception']}); stderr {run['stderr'][-300:]!r}; {what}")
    if "Error processing" in run["stderr"]:
        raise Violation("cli-error-processing-valid-sheet", f"cm-colors could not process a valid stylesheet: {run['stderr'].strip().splitlines()[0]!r}; {what}")
    counts, cards = run["counts"], run["cards"]
    coloured = {rel: coloured_rules(nf) for rel, nf in nf_ins.items()}
    N = sum(len(v) for v in coloured.values())
    # If the command's wording or the report template changed, the observation points cannot be read: that is a
    # harness problem (exit 2), never a verdict on the code.
    if not counts["recognised"] or (N > 0 and not counts["summary_seen"]):
        raise HarnessError(f"cm-colors stdout format not recognised: {run['stdout']!r}")
    rep = run["texts"].get(cli.REPORT)
    if rep is not None and not cards and b"card" not in rep:
        raise HarnessError("report template not recognised (no cards found)")

    # 1. accounting (over the whole run) -------------------------------------------------------------------------
    if counts["readable"] + counts["adjusted"] + counts["attention"] != N:
        raise Violation("accounting-sum", f"{N} rules have a text colour but readable+adjusted+attention = {counts['readable']}+{counts['adjusted']}+{counts['attention']}; stdout {run['stdout']!r}; {what}")
    if counts["adjusted"] != len(cards):
        raise Violation("accounting-cards", f"{counts['adjusted']} pairs reported adjusted but the report has {len(cards)} cards; {what}")
    if counts["attention"] != len(counts["listed"]):
        raise Violation("accounting-listed", f"{counts['attention']} pairs need attention but {len(counts['listed'])} are listed; stdout {run['stdout']!r}; {what}")
    basenames = {os.path.basename(rel): rel for rel in files}
    for c in cards:
        if c["file"] not in basenames:
            raise Violation("card-for-unknown-file", f"report card names file {c['file']!r}; {what}")
    for f, _ in counts["listed"]:
        if f not in basenames:
            raise Violation("listed-wrong-file", f"failure listed under file {f!r}, expected one of {sorted(basenames)}; {what}")

    tot = {"A": 0, "F": 0, "R": 0, "unjudged": 0, "shared": False}
    for rel, css in files.items():
        base = os.path.basename(rel)
        out_rel = cli.out_name(rel)
        if out_rel not in run["texts"]:
            raise Violation("no-output-file", f"{out_rel} was not written; stdout {run['stdout']!r}; {what}")
        out_css = run["texts"][out_rel].decode("utf-8")
        cards_f = [c for c in cards if c["file"] == base]
        listed_f = [sel for f, sel in counts["listed"] if f == base]
        r = _judge_file(rel, nf_ins[rel], out_css, coloured[rel], cards_f, listed_f, mode, premium, dbg, what)
        for k in ("A", "F", "R", "unjudged"):
            tot[k] += r[k]
        tot["shared"] = tot["shared"] or r["shared"]
    if tot["R"] != counts["readable"]:
        raise Violation("accounting-readable", f"{counts['readable']} counted readable but {tot['R']} rules are neither adjusted nor listed; {what}")

    allcss = "\n".join(files.values())
    feats = []
    if "var(" in allcss:
        feats.append("custom-property")
    if "@media" in allcss.lower() or "@supports" in allcss.lower():
        feats.append("nesting")
    if dbg is not None:
        feats.append("default-bg")
    if premium:
        feats.append("premium")
    if any(k in allcss.lower() for k in ("rgb(", "hsl(", "rgba(")):
        feats.append("non-hex")
    if len(files) > 1:
        feats.append("directory-run")
    nt = (str(sorted(files.items())), str(settings)) if (tot["A"] >= 1 and feats) else None
    cls = [f"adjusted:{min(tot['A'], 3)}", f"attention:{min(tot['F'], 3)}", f"readable:{min(tot['R'], 3)}"] + [f"feat:{f}" for f in feats]
    if tot["shared"]:
        cls.append("has-shared-var")
    if tot["unjudged"]:
        cls.append("readable-rule-unjudged")
    return {"nt": nt, "cls": cls, "sample": {"files": files, "settings": settings, "counts": {k: counts[k] for k in ("readable", "adjusted", "attention")},
                                             "cards": [{"file": c["file"], "selector": c["selector"], "before": c["codes"][0], "after": c["codes"][1]} for c in cards[:3]]}}


def _judge_file(rel, nf_in, out_css, coloured, cards, listed, mode, premium, dbg, what):
    from cm_colors import ColorPair

    target = 7.0 if premium else 4.5
    what = f"file {rel}: " + what
    nf_out = osh.normal(out_css)
    props_in, props_out = osh.custom_properties(nf_in), osh.custom_properties(nf_out)
    col_ids = [rid for rid, _ in coloured]
    shared = shared_vars(nf_in, dbg)
    import re as _re

    dbg_vars = set(_re.findall(r"var\(\s*(--[^\s,)]+)", dbg)) if dbg and "var(" in dbg else set()

    def through_shared(vn):
        # the referenced property, or any property its definition aliases (--link: var(--base)), is shared: the rule then
        # reads its colour through a definition that the tool rewrites in place for another rule
        seen = set()
        while vn and vn[0] not in seen:
            if vn[0] in shared:
                return True
            seen.add(vn[0])
            d = props_in.get(vn[0])
            vn = osh.var_name_of(d) if d is not None else None
        return False

    def tag(rule):
        cd = osh.last_decl(rule, "color")
        vn = osh.var_name_of(cd[2]) if cd else None
        bd = osh.last_decl(rule, "background-color")
        bn = osh.var_name_of(bd[2]) if bd else None
        via_default = bd is None and bool(dbg_vars & shared)  # the rule's background is the option, which references a shared property
        return ":shared-var" if through_shared(vn) or through_shared(bn) or via_default else ""

    A = ids_from_selectors([c["selector"] for c in cards], coloured)
    F = ids_from_selectors(listed, coloured)
    for rid in A + F:
        if rid not in col_ids:
            raise Violation("reported-rule-unknown", f"reported selector {rid} is not a rule with a text colour; {what}")
    if len(set(A)) != len(A) or len(set(F)) != len(F) or set(A) & set(F):
        raise Violation("rule-in-two-categories", f"adjusted {A} / attention {F} overlap or repeat; {what}")
    Rset = [rid for rid in col_ids if rid not in A and rid not in F]
    by_in, by_out = all_rules_by_id(nf_in), all_rules_by_id(nf_out)

    # 2. adjusted rules -----------------------------------------------------------------------------------------
    for rid, card in zip(A, cards):
        rin, rout = by_in[rid], by_out.get(rid)
        sfx = tag(rin)
        if rout is None or osh.last_decl(rout, "color") is None:
            raise Violation("adjusted-rule-missing-in-output" + sfx, f"rule {rid} reported adjusted is missing (or lost its color) in the output; {what}")
        after = _read(card["codes"][1])
        if after is None:
            raise Violation("card-after-not-a-colour" + sfx, f"card for {rid} shows after-colour {card['codes'][1]!r}; {what}")
        t_out, b_out = pair_strings(rout, props_out, dbg)
        written = _read(t_out) if t_out else None
        if written is None or not (written & after):
            raise Violation("written-colour-differs-from-reported" + sfx, f"rule {rid}: report says {card['codes'][1]!r} but the written file gives the rule text colour {t_out!r} (output {out_css!r}); {what}")
        t_in, b_in = pair_strings(rin, props_in, dbg)
        if t_in is None or b_in is None:
            raise Violation("adjusted-rule-without-resolvable-pair" + sfx, f"rule {rid} reported adjusted but its text/background do not resolve ({t_in!r} on {b_in!r}); {what}")
        try:
            api_pair = ColorPair(t_in, b_in)
            api = api_pair.make_readable(mode=mode, very_readable=premium)
        except Exception as e:
            raise Violation(exc_bucket(e), f"Python API raised {e!r} for {t_in!r} on {b_in!r}")
        api_rgb = _read(api[0]) if isinstance(api[0], str) else None
        if not api_pair.is_valid or api_rgb is None or not (api_rgb & after):
            raise Violation("reported-colour-differs-from-api" + sfx, f"rule {rid}: report says {card['codes'][1]!r}; ColorPair({t_in!r}, {b_in!r}).make_readable(mode={mode}, very_readable={premium}) = {api!r}; {what}")
        bg_rgb = api_pair.bg.rgb
        if b_out is not None and _read(b_out) is not None and len(_read(b_out)) == 1 and not b_out.lower().startswith(("rgba", "hsla")):
            bg_rgb = next(iter(_read(b_out)))
        v = {ow.meets(c, bg_rgb, target) for c in after}
        if v == {False}:
            raise Violation("adjusted-colour-misses-target" + sfx, f"rule {rid}: reported/written colour {card['codes'][1]!r} has contrast {ow.ratio(next(iter(after)), bg_rgb):.4f} < {target} against {bg_rgb}; {what}")

    # 3. rules counted as already readable ---------------------------------------------------------------------
    unjudged = 0
    for rid in Rset:
        rout = by_out.get(rid)
        rin = by_in[rid]
        sfx = tag(rin)
        if rout is None:
            raise Violation("readable-rule-missing-in-output" + sfx, f"rule {rid} is missing in the output; {what}")
        t_out, b_out = pair_strings(rout, props_out, dbg)
        if t_out is None or b_out is None:
            raise Violation("counted-readable-but-unresolvable" + sfx, f"rule {rid} counted as already readable but its colours do not resolve in the written file ({t_out!r} on {b_out!r}); {what}")
        try:
            rt = ocss.parse_input(t_out)
            rb = ocss.parse_input(b_out)
        except ocss.CssReject:
            unjudged += 1
            continue
        p = ColorPair(t_out, b_out)
        if not p.is_valid:
            raise Violation("counted-readable-but-invalid" + sfx, f"rule {rid} counted readable but ColorPair({t_out!r}, {b_out!r}) is invalid; {what}")
        if ow.meets(p.text.rgb, p.bg.rgb, target) is False:
            raise Violation("counted-readable-but-fails" + sfx, f"rule {rid} counted as already readable but {t_out!r} on {b_out!r} has contrast {ow.ratio(p.text.rgb, p.bg.rgb):.4f} < {target} in the written file; {what}")

    # 4. rules needing attention are left unchanged ------------------------------------------------------------
    # (custom properties that were rewritten on behalf of an ADJUSTED rule may live inside a rule that itself needs
    #  attention; those definitions are allowed to change, everything else in the rule is not)
    rewritten = set()
    for rid in A:
        cd = osh.last_decl(by_in[rid], "color")
        vn = osh.var_name_of(cd[2]) if cd else None
        if vn:
            rewritten.add(vn[0])

    def frozen(rule):
        return [d for d in rule[2] if not (d[0] == "decl" and d[1] in rewritten)]

    for rid in F:
        rin, rout = by_in[rid], by_out.get(rid)
        if rout is None or frozen(rout) != frozen(rin):
            raise Violation("attention-rule-changed" + tag(rin), f"rule {rid} is listed as needing attention but its declarations changed: {rin[2]} -> {rout[2] if rout else None}; {what}")

    return {"A": len(A), "F": len(F), "R": len(Rset), "unjudged": unjudged, "shared": bool(shared)}


def strategy_factory(knobs):
    def make():
        return st.tuples(sheets.sheet(knobs=knobs), sheets.cli_settings()).map(lambda t: {"css": t[0]["css"], "settings": t[1]})

    return make


# ---- known finding F6: a custom property shared by several rules ---------------------------------------------------


F6_BUCKETS = ("written-colour-differs-from-reported", "adjusted-colour-misses-target", "counted-readable-but-fails",
              "reported-colour-differs-from-api")


def m_shared_var(subname, bucket, case):
    """F6 only: the violated rule takes its colour or background through a custom property that several declarations
    reference (suffix computed from the INPUT sheet), and the symptom is one of those a later rewrite of that shared
    definition can cause. Accounting, structure, missing output etc. are never set aside."""
    return bucket.endswith(":shared-var") and bucket[: -len(":shared-var")] in F6_BUCKETS


MATCHERS = {"shared-custom-property": m_shared_var}


@st.composite
def directory_case(draw):
    """Two or three sheets in one directory run. One sheet defines custom properties in :root that ANOTHER sheet uses
    without defining them (custom properties do not cross files: there they are undefined), and both use the same names."""
    knobs = {"shared_vars": False}
    n = draw(st.sampled_from([2, 2, 3]))
    names = draw(st.lists(st.sampled_from(["a.css", "b.css", "main.css", "theme.css", "z.css", "0.css"]), min_size=n, max_size=n, unique=True))
    dirs = draw(st.lists(st.sampled_from(["site", "site", "site/sub"]), min_size=n, max_size=n))
    files = {}
    for nm, d in zip(names, dirs):
        files[f"{d}/{nm}"] = draw(sheets.sheet(knobs=knobs, max_rules=3))["css"]
    rels = sorted(files)
    if draw(st.integers(0, 3)) > 0:
        a, b = rels[0], rels[1]
        if draw(st.booleans()):
            a, b = b, a
        g = draw(st.integers(100, 160))
        files[a] += f"\n:root {{ --xf: #{g:02x}{g:02x}{g:02x}; --xb: #101010; }}\n.r80 {{ color: var(--xf); }}\n"
        files[b] += "\n.r90 { color: var(--xf, #777777); background-color: var(--xb, #ffffff); }\n.r91 { color: var(--xf); }\n.r92 { color: #8c8c8c; background-color: var(--xb, #fafafa); }\n"
    return {"files": files, "target": "site", "settings": draw(sheets.cli_settings())}


@st.composite
def f6_template(draw):
    """Sheets built to exhibit F6: one custom property used as text colour by two rules on different backgrounds."""
    g = draw(st.integers(90, 170))
    c = f"#{g:02x}{g:02x}{g:02x}"
    b1 = draw(st.sampled_from(["#ffffff", "#fafafa", "#f0f0f0", None]))
    b2 = draw(st.sampled_from(["#000000", "#111111", "#222222", "#1a1a2e"]))
    r1 = ".r1 { color: var(--c);" + (f" background-color: {b1};" if b1 else "") + " }"
    r2 = f".r2 {{ color: var(--c); background-color: {b2}; }}"
    rules = [r1, r2]
    if draw(st.booleans()):
        rules.reverse()
    extra = draw(st.sampled_from(["", ".r3 { color: #000000; background-color: #ffffff; }\n", "@media print { .r4 { color: #767676; } }\n"]))
    css = f":root {{ --c: {c}; }}\n" + "\n".join(rules) + "\n" + extra
    return {"css": css, "settings": draw(sheets.cli_settings())}


# ---- real console script (subprocess) ----------------------------------------------------------------------------


def subprocess_judge(case):
    """The installed `cm-colors` entry point run as a subprocess must produce the same stdout and file as the in-process run."""
    import tempfile
    import shutil

    css, settings = case["css"], case["settings"]
    run = cli.run_cli({"s.css": css}, "s.css", settings)
    d = tempfile.mkdtemp(prefix="c08sub_")
    try:
        with open(os.path.join(d, "s.css"), "w", encoding="utf-8", newline="") as f:
            f.write(css)
        env = dict(os.environ)
        env["PYTHONPATH"] = os.path.join(env.get("VERIF_REPO", "/repo"), "src")
        env["PYTHONIOENCODING"] = "utf-8"
        p = subprocess.run([sys.executable, "-c", "import sys; from cm_colors.cli.main import main; sys.exit(main())"] + cli.args_for("s.css", settings),
                           cwd=d, env=env, capture_output=True, text=True, encoding="utf-8", timeout=600)
        out_file = os.path.join(d, "s_cm.css")
        sub_css = open(out_file, encoding="utf-8").read() if os.path.exists(out_file) else None
        in_css = run["texts"].get("s_cm.css")
        in_css = in_css.decode("utf-8") if in_css is not None else None
        norm = lambda s, root: s.replace(os.path.realpath(root), "<CWD>").replace(root, "<CWD>")
        if sub_css != in_css:
            raise Violation("subprocess-output-differs", f"console-script run wrote {sub_css!r}, in-process run wrote {in_css!r}")
        if cli.parse_stdout(p.stdout) != run["counts"]:
            raise Violation("subprocess-stdout-differs", f"console-script stdout {p.stdout!r} vs in-process {run['stdout']!r}")
    finally:
        shutil.rmtree(d, ignore_errors=True)
    return {"nt": (css, str(settings)), "cls": ["subprocess"]}


def env_items(shard, nshards):
    return [{"which": "cli"}] if shard == 0 else []


def env_judge(case):
    """One fixed non-ASCII sheet through the CLI in a CHILD interpreter under LC_ALL=C (UTF-8 mode and locale coercion off):
    what is reported must still be what was written."""
    from vlib import envleg

    c = envleg.run_child("cli", True)
    if "__crash__" in c:
        raise Violation("locale-dependent:crash", f"the CLI workload crashes under LC_ALL=C: {c['__crash__'][-300:]}")
    what = f"fixed non-ASCII sheet under LC_ALL=C (preferred encoding {c.get('preferred_encoding')})"
    if c["exit"] != 0 or "Error processing" in c["stderr"]:
        raise Violation("locale-dependent:cli-error", f"{what}: exit {c['exit']}, stderr {c['stderr']!r}")
    nf_in = osh.normal(envleg.SHEET)
    coloured = coloured_rules(nf_in)
    cards = [{"selector": sel, "codes": codes, "file": "estilo.css"} for sel, codes in c["cards"]]
    if c["counts"]["adjusted"] != len(cards) or sum(c["counts"].values()) != len(coloured):
        raise Violation("locale-dependent:accounting", f"{what}: counts {c['counts']}, {len(cards)} cards, {len(coloured)} rules with a text colour")
    if c["output"] is None:
        raise Violation("locale-dependent:no-output-file", f"{what}: no output written although {c['counts']} was reported")
    r = _judge_file("site/estilo.css", nf_in, c["output"], coloured, cards, [], 1, False, None, what)
    return {"nt": ("env", "cli", c.get("preferred_encoding")), "cls": ["c-locale-child"], "sample": {"env": "LC_ALL=C PYTHONUTF8=0 PYTHONCOERCECLOCALE=0", "counts": c["counts"], "adjusted": r["A"]}}


def subchecks(tier):
    q = tier == "quick"
    main_knobs = {"shared_vars": False}
    subs = [
        Hyp("sheets-main", strategy_factory(main_knobs), judge, examples=1600 if q else 48000),
        Hyp("sheets-directory-run", directory_case, judge, examples=480 if q else 12000),
        Hyp("sheets-shared-custom-property", strategy_factory({"shared_vars": True}), judge, examples=240 if q else 4000),
        Hyp("sheets-shared-f6-template", f6_template, judge, examples=64 if q else 640, shards=8),
    ]
    subs.append(Enum("c-locale-fresh-interpreter", judge=env_judge, items=env_items, shards=1))
    if not q:
        subs.append(Hyp("console-script-subprocess", strategy_factory(main_knobs), subprocess_judge, examples=240))
    return subs
