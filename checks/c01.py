"""C01 — make_readable's success flag is exactly the WCAG verdict on the returned colour."""
from hypothesis import strategies as st

from vlib import optim
from vlib.gen import colors as gc
from vlib.oracles import css as ocss
from vlib.oracles import wcag as ow
from vlib.runner import Enum, Hyp, Violation, exc_bucket

ID = "C01"
LEVEL = "exploration"
RULE = (
    "Hypothesis: text/background pairs constructed on a segment from the background so that their WCAG contrast is within "
    "+/-3% (70%) or +/-25% of one of 3.0/4.5/7.0 (both polarities, all background lightness bands) plus uniform pairs, each in "
    "a generated spelling (hex variants, rgb(), rgb%, hsl(), named, tuple, list, translucent rgba()/hsla()/RGBA) x mode x "
    "large_text x very_readable; observed at ColorPair.make_readable, make_readable_bulk (1- and 3-element lists) and "
    "check_and_fix_contrast. Lattices: grey x grey and keyword x keyword. Non-trivial: the original pair failed the "
    "minimum and the returned colour's ratio is within 15% of the minimum, or the result is an rgb()/hsl() string that "
    "had to be re-read; distinct by (text, bg, settings, spelling kinds)."
)
ASSUMPTIONS = [
    "O-WCAG and O-CSS oracles (self-tested at start); verdicts within 1e-9 of a threshold re-judged in 40-digit decimal, "
    "still-tied cases skipped as indeterminate",
    "the verdict is taken against the background as O-CSS reads it; cases where the library parses the background "
    "differently are C07's business and skipped here (counted)",
]


def selftest():
    ow.selftest()
    ocss.selftest()


def _judge_flag(result, success, bg, minimum, case, where):
    if type(success) is not bool:
        raise Violation("success-not-bool", f"{where}: success is {success!r} ({type(success).__name__}) for {optim.describe(case)}")
    rgbs = optim.readback_set(result)
    v = optim.verdict(rgbs, bg, minimum)
    if v is None:
        return None, rgbs
    r = ow.ratio(next(iter(rgbs)), bg)
    if success and not v:
        raise Violation("reported-fixed-but-fails", f"{where}: returned {result!r} with success=True but contrast {r:.6f} < {minimum} against {bg} for {optim.describe(case)}")
    if (not success) and v:
        raise Violation("reported-failed-but-passes", f"{where}: returned {result!r} with success=False but contrast {r:.6f} >= {minimum} against {bg} for {optim.describe(case)}")
    return v, rgbs


def judge(case):
    pair, t, b = optim.make_pair(case)
    if not pair.is_valid:
        return {"skip": "library-rejects-spelling"}
    bg, same = optim.judged_bg(pair, b)
    if not same:
        return {"skip": "bg-parsed-differently(C07)"}
    minimum = optim.minimum_for(case)
    large, very, mode = case["large"], case["very"], case["mode"]
    result, success = optim.call_make_readable(pair, case)
    v, rgbs = _judge_flag(result, success, bg, minimum, case, "ColorPair.make_readable")
    if v is None:
        return {"skip": "indeterminate-threshold"}
    via = case.get("via", "pair")
    if via in ("bulk1", "bulk3"):
        from cm_colors import make_readable_bulk

        entries = [(t, b, large)] if via == "bulk1" else [("#000", "#fff"), (t, b, large), ("#123456", "#654321", True)]
        idx = 0 if via == "bulk1" else 1
        try:
            out = make_readable_bulk(entries, mode=mode, very_readable=very)
        except Exception as e:
            raise Violation(exc_bucket(e), f"make_readable_bulk raised {e!r} for {optim.describe(case)}")
        if len(out) != len(entries):
            raise Violation("bulk-length", f"bulk returned {len(out)} results for {len(entries)} entries")
        bcol, status = out[idx]
        brgbs = optim.readback_set(bcol)
        aa = 3.0 if large else 4.5
        aaa = 4.5 if large else 7.0
        va, vaaa = optim.verdict(brgbs, bg, aa), optim.verdict(brgbs, bg, aaa)
        if va is not None and vaaa is not None:
            want = "very readable" if vaaa else ("readable" if va else "not readable")
            if status != want:
                raise Violation("bulk-status-vs-wcag", f"bulk status {status!r} for returned {bcol!r} on {bg}; WCAG says {want!r} ({optim.describe(case)})")
    elif via == "direct":
        from cm_colors.core.optimisation import check_and_fix_contrast

        try:
            dres, dsucc = check_and_fix_contrast(pair.text.rgb, pair.bg.rgb, large, mode, very)
        except Exception as e:
            raise Violation(exc_bucket(e), f"check_and_fix_contrast raised {e!r} for {optim.describe(case)}")
        _judge_flag(dres, dsucc, bg, minimum, case, "check_and_fix_contrast")

    orig_fails = ow.ratio(pair.text.rgb, bg) < minimum
    rr = ow.ratio(next(iter(rgbs)), bg)
    close = abs(rr / minimum - 1.0) <= 0.15
    reread = isinstance(result, str) and not result.startswith("#")
    nt = None
    if (orig_fails and close) or (orig_fails and reread):
        nt = (pair.text.rgb, bg, large, very, mode, case.get("tkind"), case.get("bkind"), via)
    outcome = "unchanged" if not orig_fails else ("fixed" if success else "failed")
    cls = [f"outcome:{outcome}", f"mode:{mode}", f"min:{minimum}", f"spell:{case.get('tkind')}", f"via:{via}",
           f"band:{case.get('meta', {}).get('band')}"]
    if case.get("meta", {}).get("thr"):
        cls.append(f"near:{case['meta']['thr']}:{'above' if case['meta']['delta'] >= 0 else 'below'}:{'lighter' if case['meta']['lighter'] else 'darker'}")
    return {"nt": nt, "cls": cls,
            "sample": {"text": case["text"], "bg": case["bg"], "large": large, "very": very, "mode": mode, "result": result if isinstance(result, str) else list(result),
                       "success": success, "ratio_of_result": round(rr, 4), "minimum": minimum, "via": via}}


def strategy():
    pairs = st.one_of(optim.near_pairs(), optim.near_pairs(), optim.near_pairs(), optim.uniform_pairs())
    # a quarter of the cases: text in a spelling whose OUTPUT has to be re-read (hsl(), rgb(), rgb%), on pairs that need a fix,
    # so that the verdict is taken on a freshly formatted hsl()/rgb() string landing near the threshold
    fixable = optim.near_pairs(delta_lo=-0.3, delta_hi=-0.005, tight=0.1)
    reread = st.one_of(optim.spelled_pair_case(fixable, translucent_share=0, kinds=["hsl"]), optim.spelled_pair_case(fixable, translucent_share=0, kinds=["hsl"]),
                       optim.spelled_pair_case(fixable, translucent_share=0, kinds=["rgb", "rgbpct", "rgbws"]))
    base = st.one_of(optim.spelled_pair_case(pairs), optim.spelled_pair_case(pairs), optim.spelled_pair_case(pairs), reread)
    via = st.sampled_from(["pair", "pair", "pair", "bulk1", "bulk3", "direct"])
    return st.tuples(base, via).map(lambda t: dict(t[0], via=t[1]))


# ---- lattices ---------------------------------------------------------------------------------------------


def _lattice_case(t, b, large, very, mode, tk="tuple"):
    return {"text": t, "bg": b, "large": large, "very": very, "mode": mode, "tkind": tk, "bkind": tk, "meta": {}, "via": "pair"}


def grey_items_factory(stride):
    def items(shard, nshards):
        k = 0
        for x in range(shard, 256, nshards):
            for y in range(256):
                k += 1
                if k % stride:
                    continue
                n = x * 256 + y
                if n % 8 == 0:
                    large, very, mode = bool(n & 8), bool(n & 16), (n // 32) % 3
                else:
                    large, very, mode = False, False, 1
                yield _lattice_case(gc.enc((x, x, x)), gc.enc((y, y, y)), large, very, mode)

    return items


def kw_items_factory(stride):
    def items(shard, nshards):
        names = gc.KW_LIST
        k = 0
        for i in range(shard, len(names), nshards):
            for j in range(len(names)):
                k += 1
                if k % stride:
                    continue
                n = i * 148 + j
                yield _lattice_case(names[i], names[j], bool(n & 1), bool(n & 2), (n // 4) % 3, tk="named")

    return items


def subchecks(tier):
    q = tier == "quick"
    subs = [Hyp("pairs-near-thresholds", strategy, judge, examples=5600 if q else 180000)]
    subs.append(Enum("grey-x-grey", judge=judge, items=grey_items_factory(32 if q else 1), exhaustive=not q))
    subs.append(Enum("keyword-x-keyword", judge=judge, items=kw_items_factory(16 if q else 1), exhaustive=not q))
    return subs
