"""C12 — the bulk API is exactly a map of the single-pair API, in order."""
from hypothesis import strategies as st

from vlib import optim
from vlib.gen import colors as gc
from vlib.gen import junk
from vlib.oracles import css as ocss
from vlib.oracles import wcag as ow
from vlib.runner import Hyp, Violation, exc_bucket

ID = "C12"
LEVEL = "exploration"
RULE = (
    "Hypothesis lists of length 0-8 (one in 25: 33-150 entries) drawn (with duplicates and permutations) from a per-list pool of entries: 2- and 3-element "
    "entries over every colour spelling, ~60% needing a fix (pairs constructed below a threshold), plus invalid entries whose text "
    "or background is G-junk; x mode x very_readable. Oracle per entry: same colour as a fresh ColorPair(...).make_readable, "
    "status = O-WCAG label of (O-CSS(result), background) at that text size; invalid entries returned unchanged and never "
    "labelled readable; an enumerated sub-check feeds every grey x grey pair whose ratio lies within 0.006 below a label threshold "
    "(returned unchanged, so the status sits a hair below the next label); metamorphic: bulk(xs)[i] == bulk([xs[i]])[0] and bulk(perm(xs)) == perm(bulk(xs)). Non-trivial: lists "
    "mixing >=1 invalid entry with >=1 entry that needed fixing, or mixing 2- and 3-element entries; distinct by list."
)
ASSUMPTIONS = ["validity of an entry is what ColorPair(text, bg).is_valid says (acceptance itself is C07/C14)", "O-WCAG / O-CSS for the status label"]


def selftest():
    ow.selftest()
    ocss.selftest()


def _entry(e):
    t, b = gc.dec(e["t"]), gc.dec(e["b"])
    ent = (t, b) if e.get("large") is None else (t, b, e["large"])
    if e.get("as_list"):
        ent = list(ent)  # e.g. a palette loaded from JSON: entries are lists, not tuples
    return ent, bool(e.get("large"))


def _same(a, b):
    return a is b or a == b or (a != a and b != b)


def judge(case):
    from cm_colors import ColorPair, make_readable_bulk

    mode, very = case["mode"], case["very"]
    entries, larges = [], []
    for e in case["entries"]:
        ent, lg = _entry(e)
        entries.append(ent)
        larges.append(lg)
    try:
        if case.get("positional"):
            out = make_readable_bulk(list(entries), mode, very)  # the documented parameter order: (pairs, mode, very_readable, save_report)
        else:
            out = make_readable_bulk(list(entries), mode=mode, very_readable=very)
    except Exception as e:
        raise Violation(exc_bucket(e), f"make_readable_bulk raised {e!r} on {entries!r}")
    if not isinstance(out, list) or len(out) != len(entries):
        raise Violation("bulk-length", f"{len(entries)} entries in, {out!r} out")
    n_invalid = n_fixed = 0
    singles = {}
    for i, ent in enumerate(entries):
        t, b, large = ent[0], ent[1], larges[i]
        pair = ColorPair(t, b, large)
        res = out[i]
        if not (isinstance(res, tuple) and len(res) == 2):
            raise Violation("bulk-result-shape", f"result {i} is {res!r}")
        if not pair.is_valid:
            n_invalid += 1
            if not _same(res[0], t):
                raise Violation("invalid-entry-not-returned-unchanged", f"entry {i} {ent!r} is unparseable but came back as {res!r}")
            if res[1] in ("readable", "very readable"):
                raise Violation("invalid-entry-claims-readability", f"entry {i} {ent!r} is unparseable but status is {res[1]!r}")
            continue
        key = (repr(t), repr(b), large)
        if len(entries) > 16 and key in singles:
            single = singles[key]  # long lists repeat a few distinct entries: the single-pair result is computed once per distinct entry
        else:
            single = singles[key] = ColorPair(t, b, large).make_readable(mode=mode, very_readable=very)
        if res[0] != single[0] or type(res[0]) is not type(single[0]):
            raise Violation("bulk-colour-differs-from-single", f"entry {i} {ent!r} (mode={mode}, very_readable={very}): bulk gives {res[0]!r}, ColorPair.make_readable gives {single[0]!r}")
        bg, same = optim.judged_bg(pair, b)
        if same:
            rgbs = optim.readback_set(res[0])
            aa, aaa = (3.0, 4.5) if large else (4.5, 7.0)
            va, vaaa = optim.verdict(rgbs, bg, aa), optim.verdict(rgbs, bg, aaa)
            if va is not None and vaaa is not None:
                want = "very readable" if vaaa else ("readable" if va else "not readable")
                if res[1] != want:
                    raise Violation("bulk-status-wrong", f"entry {i} {ent!r}: returned {res[0]!r} on {bg} at {'large' if large else 'normal'} size is {want!r} by WCAG, bulk says {res[1]!r}")
        if pair.text.rgb not in optim.readback_set(res[0]):
            n_fixed += 1
    # metamorphic: singleton and permutation
    for i in case.get("probe", []):
        if i < len(entries):
            one = make_readable_bulk([entries[i]], mode=mode, very_readable=very)
            if len(one) != 1 or not (_same(one[0][0], out[i][0]) and one[0][1] == out[i][1]):
                raise Violation("position-dependent", f"entry {entries[i]!r} gives {out[i]!r} at position {i} of {entries!r} but {one!r} alone")
    perm = case.get("perm")
    if perm and len(perm) == len(entries):
        pout = make_readable_bulk([entries[j] for j in perm], mode=mode, very_readable=very)
        want = [out[j] for j in perm]
        if len(pout) != len(want) or any(not (_same(x[0], y[0]) and x[1] == y[1]) for x, y in zip(pout, want)):
            raise Violation("order-dependent", f"bulk over permutation {perm} of {entries!r} gives {pout!r}, expected {want!r}")
    arities = {len(e) for e in entries}
    nt = None
    if (n_invalid >= 1 and n_fixed >= 1) or len(arities) == 2 or case.get("band"):
        nt = str(case["entries"]) + str((mode, very))
    return {"nt": nt, "cls": [(f"len:{len(entries)}" if len(entries) <= 8 else "len:long(33-150)"), f"invalid:{min(n_invalid, 3)}", f"fixed:{min(n_fixed, 3)}", "mixed-arity" if len(arities) == 2 else "one-arity"],
            "sample": {"entries": case["entries"], "mode": mode, "very": very, "out": [[r[0] if isinstance(r[0], (str, type(None))) else str(r[0]), r[1]] for r in out]}}


@st.composite
def entry(draw):
    k = draw(st.integers(0, 9))
    large = draw(st.sampled_from([None, None, False, True, True]))
    if k < 2:
        # invalid: junk text and/or junk background
        which = draw(st.integers(0, 2))
        good, _, _ = draw(gc.spell(draw(gc.rgb())))
        j = draw(junk.anything().map(gc.enc))
        j2 = draw(junk.strings())
        if which == 0:
            return {"t": j, "b": good, "large": large}
        if which == 1:
            return {"t": good, "b": j2, "large": large}
        return {"t": j, "b": j2, "large": large}
    if k < 8:
        thr = draw(st.sampled_from([3.0, 4.5, 7.0]))
        text, bg, _ = draw(gc.pair_near(thresholds=(thr,), delta_lo=-0.35, delta_hi=0.05, tight=0.1))
    else:
        text, bg, _ = draw(optim.uniform_pairs())
    if draw(st.integers(0, 9)) == 0:
        targ, _ = draw(gc.translucent_near(text, bg))
    else:
        targ, _, _ = draw(gc.spell(text))
    barg, _, _ = draw(gc.spell(bg, allow_translucent=False))
    e = {"t": targ, "b": barg, "large": large, "trgb": list(text), "brgb": list(bg)}
    if draw(st.integers(0, 5)) == 0:
        e["as_list"] = True
    return e


@st.composite
def strategy(draw):
    pool = draw(st.lists(entry(), min_size=1, max_size=4))
    if draw(st.integers(0, 2)) == 0:
        # the same colours again in ANOTHER notation (hex vs rgb() vs hsl() vs tuple): each entry keeps its own format
        src = draw(st.sampled_from(pool))
        if src.get("trgb"):
            t2, _, _ = draw(gc.spell(tuple(src["trgb"]), kinds=["hex6", "rgb", "hsl", "tuple", "list", "HEX6", "rgbpct"], allow_translucent=False))
            b2, _, _ = draw(gc.spell(tuple(src["brgb"]), kinds=["hex6", "rgb", "tuple", "HEX6"], allow_translucent=False))
            pool.append({"t": t2, "b": b2, "large": src.get("large")})
    n = draw(st.sampled_from([0, 1, 2, 2, 3, 3, 4, 5, 6, 8]))
    if draw(st.integers(0, 24)) == 0:
        # long lists (a site-wide palette audit): order and one-result-per-entry must hold at any length - batching, paging
        # or a worker pool that only engages beyond some size would break them
        n = draw(st.sampled_from([33, 48, 64, 101, 150]))
    idx = draw(st.lists(st.integers(0, len(pool) - 1), min_size=n, max_size=n))
    entries = [pool[i] for i in idx]
    case = {"entries": entries, "mode": draw(st.sampled_from([0, 1, 1, 2])), "very": draw(st.booleans())}
    if draw(st.integers(0, 3)) == 0:
        case["positional"] = True
    if n:
        case["probe"] = draw(st.lists(st.integers(0, n - 1), max_size=2, unique=True))
        if draw(st.booleans()):
            case["perm"] = list(draw(st.permutations(list(range(n)))))
    return case


def band_items(shard, nshards):
    """Entries whose (untouched) result sits a hair BELOW a label threshold: all grey x grey pairs with a ratio in
    [thr - 0.006, thr) for thr 4.5 (large text) and 7.0 (normal text), where the pair already meets the requested minimum
    and is therefore returned unchanged. A label computed from a rounded ratio shows up exactly here."""
    out = []
    k = 0
    for x in range(256):
        for y in range(256):
            r = ow.ratio((x, x, x), (y, y, y))
            for thr, large in ((4.5, True), (7.0, False)):
                if thr - 0.006 <= r < thr:
                    k += 1
                    if k % nshards == shard:
                        for spell in (lambda v: gc.enc((v, v, v)), lambda v: f"#{v:02x}{v:02x}{v:02x}", lambda v: f"rgb({v}, {v}, {v})"):
                            out.append({"entries": [{"t": spell(x), "b": spell(y), "large": large}], "mode": 1, "very": False, "band": True})
    return out


def subchecks(tier):
    q = tier == "quick"
    from vlib.runner import Enum

    return [Hyp("bulk-is-a-map", strategy, judge, examples=1600 if q else 40000),
            Enum("status-just-below-label-thresholds", judge=judge, items=band_items, exhaustive=True)]
