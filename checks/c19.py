"""C19 — reports are injection-safe: user text appears only HTML-escaped."""
import os

from hypothesis import strategies as st

from vlib.oracles import htmlo
from vlib.runner import HarnessError, Hyp, Violation, exc_bucket
from vlib.sandbox import Capture, Scratch

ID = "C19"
LEVEL = "exploration"
RULE = (
    "Hypothesis G-payload: strings assembled from markup metacharacters (< > & \" ' ` = / ! - ; space), tag / attribute / handler "
    "names, closing tags of the report template (</div>, </style>, </title>, -->), entity look-alikes (&lt; &#x3c; &amp;amp;) and "
    "ready-made attack strings, placed in each user-controlled slot: directly in generate_report (selector, file, bg, "
    "original_text, tuned_text) and to_html_bulk (fg, bg, tuned_fg, selector, file), 1-3 cards per report; end to end through the "
    "CLI (attribute-selector strings, file names, --default-bg of the form valid-colour+payload) and through "
    "make_readable_bulk(save_report=True) with lenient colour strings carrying a payload. Oracle: html.parser skeleton equal to "
    "the benign report's, slot text equal to the payload verbatim, style attribute exactly 'background-color: <bg>; color: <fg>;'. "
    "Non-trivial: payloads containing '<' or a quote AND one of script / on...= / a closing template tag / an entity; distinct by "
    "(generator, slot, payload)."
)
ASSUMPTIONS = ["html.parser (convert_charrefs=True) as the HTML reader", "level strings are not user text and are not injected"]

CHARS = list("<>&\"'`=/!-; ") + ["\t", "é", "{", "}", "(", ")", "#", ":", "\\"]
# compatibility look-alikes that Unicode normalisation (NFKC/NFKD) folds to ASCII markup characters
LOOKALIKES = ["＜", "＞", "＆", "＂", "＇", "＝", "／", "﹤", "﹥", "﹠", "＜script＞", "＜img src=x onerror=alert(1)＞", "﹤svg onload=1﹥", "＆lt;", "ﬁ", "Å", "①"]
FRAGS = [
    "script", "style", "img", "svg", "iframe", "onerror=", "onload=", "onmouseover=", "onclick=", "src=x", "href=", "javascript:", "alert(1)",
    "</div>", "</style>", "</title>", "</span>", "</main>", "</body>", "-->", "<!--", "<![CDATA[", "]]>", "</script>", "<script>", "<b>", "<svg onload=1>",
    "&lt;", "&gt;", "&amp;", "&quot;", "&#x3c;", "&#60;", "&#x27;", "&amp;lt;", "&lt", "&amp", "&#60", "&nbsp;", "&unknown;",
    '" onmouseover="alert(1)', "' onclick='alert(1)", '"><script>alert(1)</script>', "<img src=x onerror=alert(1)>", "';alert(1);//", "`${x}`",
    "x\" style=\"position:fixed", "</div><div class=\"card\">", "--><script>", "</style><script>alert(1)</script>", "{{7*7}}", "%3Cscript%3E",
]
MARKERS = ("script", "onerror", "onload", "onmouseover", "onclick", "</div>", "</style>", "</title>", "-->", "&lt", "&#", "&amp", "style=", "svg", "img")


class _Obj:
    """A non-str value whose text is user-controlled (what html.escape(str(x)) must still neutralise)."""

    def __init__(self, text):
        self.text = text

    def __str__(self):
        return self.text


def wrap_value(kind, payload):
    """user text carried by a non-str object: pathlib path, tuple/list with string components, object with __str__"""
    import pathlib

    if kind == "path":
        return pathlib.PurePosixPath(payload) if payload and "\x00" not in payload else payload
    if kind == "tuple":
        return (payload, 1, 2)
    if kind == "list":
        return [payload]
    if kind == "obj":
        return _Obj(payload)
    return payload


def payloads(max_parts=7, extra_exclude=""):
    part = st.one_of(st.sampled_from(FRAGS), st.sampled_from(FRAGS), st.sampled_from(CHARS), st.sampled_from(LOOKALIKES), st.text(alphabet="abcxyz ", max_size=3))
    s = st.lists(part, min_size=1, max_size=max_parts).map("".join)
    if extra_exclude:
        s = s.map(lambda v: "".join(ch for ch in v if ch not in extra_exclude))
    return s


def nontrivial(p):
    return (("<" in p) or ('"' in p) or ("'" in p) or ("＜" in p) or ("﹤" in p)) and any(m in p for m in MARKERS)


def selftest():
    htmlo.selftest()


BENIGN_CLI = {"file": "styles.css", "selector": ".benign", "bg": "white", "original_text": "#777777", "tuned_text": "#757575", "original_level": "FAIL", "new_level": "AA"}
BENIGN_API = {"fg": "#777777", "bg": "#ffffff", "tuned_fg": "#757575", "original_level": "FAIL", "new_level": "AA", "selector": "Pair 1", "file": "Bulk API"}
CLI_SLOTS = ["selector", "file", "bg", "original_text", "tuned_text"]
API_SLOTS = ["fg", "bg", "tuned_fg", "selector", "file"]


def _render(gen, pairs):
    with Scratch("c19_") as sc:
        with Capture():
            try:
                if gen == "cli":
                    from cm_colors.cli.html_report import generate_report

                    generate_report(pairs, output_path="r.html")
                else:
                    from cm_colors.core.visualiser import to_html_bulk

                    to_html_bulk(pairs, output_path="r.html")
            except Exception as e:
                raise Violation(exc_bucket(e), f"{gen} report generator raised {e!r} for {pairs!r}")
        with open(os.path.join(sc.path, "r.html"), encoding="utf-8") as f:
            return f.read()


def _expect_card(gen, pair):
    if gen == "cli":
        return {"selector": str(pair["selector"]), "file": str(pair["file"]), "codes": [str(pair["original_text"]), str(pair["tuned_text"])],
                "styles": [f"background-color: {pair['bg']}; color: {pair['original_text']};", f"background-color: {pair['bg']}; color: {pair['tuned_text']};"]}
    return {"selector": str(pair["selector"]), "file": str(pair["file"]), "codes": [str(pair["fg"]), str(pair["tuned_fg"])],
            "styles": [f"background-color: {pair['bg']}; color: {pair['fg']};", f"background-color: {pair['bg']}; color: {pair['tuned_fg']};"]}


def _compare(doc, benign_doc, expected_cards, what):
    got = htmlo.parse(doc)
    ref = htmlo.parse(benign_doc)
    if got.skeleton != ref.skeleton:
        # locate first difference for the message
        i = 0
        while i < min(len(got.skeleton), len(ref.skeleton)) and got.skeleton[i] == ref.skeleton[i]:
            i += 1
        raise Violation("structure-changed", f"{what}: report structure differs from the benign report at event {i}: got {got.skeleton[i:i+3]} expected {ref.skeleton[i:i+3]}")
    cards = htmlo.cards(doc)
    nb = _BENIGN_CARDS.get(benign_doc)
    if nb is None:
        if len(_BENIGN_CARDS) > 64:
            _BENIGN_CARDS.clear()
        nb = _BENIGN_CARDS[benign_doc] = len(htmlo.cards(benign_doc))
    if nb != len(expected_cards):
        raise HarnessError("report template not recognised: the benign report does not yield the expected cards")
    if len(cards) != len(expected_cards):
        raise Violation("card-count", f"{what}: {len(cards)} cards, expected {len(expected_cards)}")
    for i, (c, e) in enumerate(zip(cards, expected_cards)):
        for key in ("selector", "file", "codes", "styles"):
            if c[key] != e[key]:
                raise Violation(f"not-verbatim:{key}", f"{what}: card {i} shows {key} = {c[key]!r}, the user text was {e[key]!r}")


_BENIGN = {}
_BENIGN_CARDS = {}


def direct_judge(case):
    gen = case["gen"]
    base = BENIGN_CLI if gen == "cli" else BENIGN_API
    pairs, benign = [], []
    wraps = case.get("wrap") or {}
    for ci, spec in enumerate(case["cards"]):
        p = dict(base)
        for slot, payload in spec.items():
            p[slot] = wrap_value(wraps.get(f"{ci}:{slot}"), payload)
        pairs.append(p)
        benign.append(dict(base))
    doc = _render(gen, pairs)
    ref = _BENIGN.get((gen, len(benign)))
    if ref is None:
        ref = _BENIGN[(gen, len(benign))] = _render(gen, benign)
    _compare(doc, ref, [_expect_card(gen, p) for p in pairs], f"{gen} generator with {case['cards']!r}")
    allp = [v for spec in case["cards"] for v in spec.values()]
    slots = sorted({k for spec in case["cards"] for k in spec})
    nt = (gen, str(case["cards"])) if any(nontrivial(p) for p in allp) else None
    return {"nt": nt, "cls": [f"{gen}:{s}" for s in slots], "sample": {"gen": gen, "cards": case["cards"]}}


@st.composite
def direct_strategy(draw):
    gen = draw(st.sampled_from(["cli", "api"]))
    slots = CLI_SLOTS if gen == "cli" else API_SLOTS
    n = draw(st.sampled_from([1, 1, 2, 3]))
    cards = []
    for _ in range(n):
        k = draw(st.integers(1, 2))
        chosen = draw(st.lists(st.sampled_from(slots), min_size=k, max_size=k, unique=True))
        cards.append({s: draw(payloads()) for s in chosen})
    case = {"gen": gen, "cards": cards}
    if draw(st.integers(0, 4)) == 0:
        # the same text, but carried by a non-str value (both generators render every field with str())
        case["wrap"] = {f"{ci}:{slot}": draw(st.sampled_from(["path", "tuple", "list", "obj"])) for ci, spec in enumerate(cards) for slot in spec if draw(st.booleans())}
    return case


# ---- end to end ------------------------------------------------------------------------------------------------


def e2e_judge(case):
    kind = case["kind"]
    if kind == "cli":
        import tinycss2  # noqa: F401  (only to make sure the CLI can be imported)
        from click.testing import CliRunner

        from cm_colors.cli.main import main as cli_main

        sel_payload, file_payload, bg_payload = case["selector"], case["file"], case.get("bg")
        selector = f'a[title="{sel_payload}"]'
        fname = (file_payload or "s") + ".css"
        default_bg = None if bg_payload is None else "rgb(255, 255, 255)" + bg_payload

        def run(selector, fname, default_bg, badvalue=None):
            with Scratch("c19e_") as sc:
                with open(os.path.join(sc.path, fname), "w", encoding="utf-8") as f:
                    f.write(selector + " { color: #777777 }\n.second { color: #888888; background-color: #ffffff }\n.bad { color: " + (badvalue or "inherit") + " }\n")
                args = [fname] + (["--default-bg", default_bg] if default_bg is not None else [])
                res = CliRunner().invoke(cli_main, args)
                rp = os.path.join(sc.path, "cm_colors_report.html")
                if not os.path.exists(rp):
                    return None, res.output
                return open(rp, encoding="utf-8").read(), res.output

        doc, out = run(selector, fname, default_bg, case.get("bad"))
        ref, _ = run('a[title="benign"]', "s.css", None if default_bg is None else "rgb(255, 255, 255)")
        if ref is None:
            raise HarnessError("benign CLI run produced no report")
        if doc is None:
            return {"skip": "cli-produced-no-report"}
        got_cards = htmlo.cards(doc)
        if len(got_cards) != 2:
            return {"skip": f"cli-adjusted-{len(got_cards)}-rules"}
        exp = []
        for c, sel in zip(got_cards, (selector, ".second")):
            bgs = (default_bg if default_bg is not None else "white") if sel == selector else "#ffffff"
            exp.append({"selector": sel, "file": fname, "codes": c["codes"], "styles": [f"background-color: {bgs}; color: {c['codes'][0]};", f"background-color: {bgs}; color: {c['codes'][1]};"]})
        _compare(doc, ref, exp, f"CLI with selector {selector!r}, file {fname!r}, default-bg {default_bg!r}")
        allp = [sel_payload, file_payload or "", bg_payload or "", case.get("bad") or ""]
    else:
        from cm_colors import ColorPair, make_readable_bulk

        text = "rgb(119, 119, 119)" + case["text"]
        bg = "rgb(255, 255, 255)" + case["bgp"]
        if not ColorPair(text, bg).is_valid:
            return {"skip": "lenient-parser-rejects-colour+payload"}

        def run(entries):
            with Scratch("c19b_") as sc:
                with Capture():
                    try:
                        make_readable_bulk(entries, save_report=True)
                    except Exception as e:
                        raise Violation(exc_bucket(e), f"make_readable_bulk(save_report=True) raised {e!r} for {entries!r}")
                rp = os.path.join(sc.path, "cm_colors_bulk_report.html")
                return open(rp, encoding="utf-8").read() if os.path.exists(rp) else None

        doc = run([(text, bg)])
        ref = run([("rgb(119, 119, 119)", "rgb(255, 255, 255)")])
        if doc is None or ref is None:
            return {"skip": "no-bulk-report"}
        c = htmlo.cards(doc)
        if len(c) != 1:
            raise Violation("card-count", f"bulk report for one entry has {len(c)} cards")
        exp = [{"selector": "Pair 1", "file": "Bulk API", "codes": [text, c[0]["codes"][1]], "styles": [f"background-color: {bg}; color: {text};", f"background-color: {bg}; color: {c[0]['codes'][1]};"]}]
        _compare(doc, ref, exp, f"make_readable_bulk(save_report=True) with text {text!r} bg {bg!r}")
        allp = [case["text"], case["bgp"]]
    return {"nt": (kind, str(case)) if any(nontrivial(p) for p in allp) else None, "cls": [f"e2e:{kind}"], "sample": case}


@st.composite
def e2e_strategy(draw):
    if draw(st.booleans()):
        # inside a double-quoted CSS string: no quote, backslash or newline; file names: no slash / NUL, not too long
        sel = draw(payloads(max_parts=5, extra_exclude='"\\\n\r\f\t'))
        fn = draw(st.one_of(st.just(""), payloads(max_parts=3, extra_exclude="/\\\x00\n\r\t"))).strip()[:60]
        if fn.endswith("_cm") or fn.startswith("-") or fn in (".", ".."):
            fn = "x" + fn + "x"
        bg = draw(st.one_of(st.none(), payloads(max_parts=4, extra_exclude="0123456789\n\r\t")))
        if bg is not None and bg.startswith("-"):
            bg = " " + bg
        # an INVALID colour value that carries markup (it is listed as needing attention; whatever the report says about it
        # must be escaped): restricted to what a declaration value can hold
        bad = draw(st.one_of(st.none(), payloads(max_parts=4, extra_exclude="\"'(){};\\\n\r\t\f!")))
        if bad is not None and not bad.strip():
            bad = None
        return {"kind": "cli", "selector": sel, "file": fn, "bg": bg, "bad": bad}
    t = draw(payloads(max_parts=4, extra_exclude="0123456789"))
    b = draw(payloads(max_parts=4, extra_exclude="0123456789"))
    return {"kind": "bulk", "text": t, "bgp": b}


def subchecks(tier):
    q = tier == "quick"
    return [
        Hyp("slots-direct", direct_strategy, direct_judge, examples=16000 if q else 500000),
        Hyp("end-to-end", e2e_strategy, e2e_judge, examples=480 if q else 10000),
    ]
