"""C07 — CSS colour values parse to the colour CSS defines."""
from fractions import Fraction as F

from hypothesis import strategies as st

from vlib.gen import colors as gc
from vlib.gen import cssstr
from vlib.oracles import css as ocss
from vlib.runner import Enum, Hyp, Violation, exc_bucket

ID = "C07"
LEVEL = "exploration"
RULE = (
    "hex: all 2^24 six-digit strings (thorough; quick: 1:64 stride) and all 4096 three-digit strings, lower case, with "
    "upper/mixed-case and no-# variants on a sample; all 148 keywords x {lower, upper, mixed case, padded}; int tuples/lists "
    "parse to themselves. Functional notations: strings generated from the CSS Color 3 grammar (integer / percentage rgb(), "
    "rgba(), hsl(), hsla(); hue in [-720,1080]; plain decimals with 0-6 fraction digits, signs, leading '.', leading zeros; "
    "optional whitespace from {space, tab, LF, CR, FF}; random function-name case), expected colour computed by O-CSS in "
    "exact rational arithmetic; translucent forms composited over a generated opaque background (or white when absent). "
    "Metamorphic: re-spelling (case / whitespace) gives the identical tuple. Observed at parse_color_to_rgb and Color(...).rgb. "
    "Thorough adds a coverage-guided stage: 16 atheris (libFuzzer) processes whose bytes drive the same structured generator "
    "(hypothesis fuzz_one_input) with the library instrumented for coverage and the same oracle inside the target. "
    "Non-trivial: strings with a percentage, a hue outside [0,360), a non-integer component, alpha strictly inside (0,1) or "
    "non-canonical whitespace/case; distinct by string (+ background)."
)
ASSUMPTIONS = [
    "O-CSS exact-rational reference parser (cross-checked against tinycss2.color3 at self-test)",
    "opaque forms: |channel - exact| <= 1/2 (+1e-9), ties accept both neighbours; translucent forms: <= 1.5 as the property states",
    "strings use plain decimal notation (no exponents), as the property's quantifier states",
]


def selftest():
    ocss.selftest()


def _lib():
    from cm_colors.core import color_parser

    return color_parser


def _parse_both(value, background=None):
    """parse_color_to_rgb and Color().rgb must agree; returns the tuple."""
    from cm_colors import Color

    cp = _lib()
    try:
        got = cp.parse_color_to_rgb(value) if background is None else cp.parse_color_to_rgb(value, background=background)
    except ValueError as e:
        raise Violation("rejects-valid-css", f"parse_color_to_rgb({value!r}{'' if background is None else ', background=' + repr(background)}) rejected a valid CSS colour: {e}")
    except Exception as e:
        raise Violation(exc_bucket(e), f"parse_color_to_rgb({value!r}) raised {e!r}")
    if not (isinstance(got, tuple) and len(got) == 3 and all(type(v) is int and 0 <= v <= 255 for v in got)):
        raise Violation("result-not-8bit-triple", f"parse_color_to_rgb({value!r}) = {got!r}")
    try:
        c = Color(value) if background is None else Color(value, background_context=Color(background))
    except Exception as e:
        raise Violation(exc_bucket(e), f"Color({value!r}) raised {e!r}")
    if c.rgb != got:
        raise Violation("color-object-differs-from-parser", f"Color({value!r}).rgb = {c.rgb!r} but parse_color_to_rgb gives {got!r} (error={c.error!r})")
    return got


def func_judge(case):
    s = case["s"]
    try:
        r, g, b, a = ocss.parse(s)
    except ocss.CssReject as e:
        from vlib.runner import HarnessError

        raise HarnessError(f"generator produced a string O-CSS rejects: {s!r}: {e}")
    bg = case.get("bg")
    translucent = case["kind"] in ("rgba", "rgbap", "hsla")
    if translucent:
        bg_rgb = (255, 255, 255) if bg is None else next(iter(ocss.read_input_set(gc.dec(bg))))
        got = _parse_both(s, None if bg is None else gc.dec(bg))
        exact = ocss.composite((r, g, b, a), bg_rgb)
        tol = F(3, 2)
        if a == 1:
            exact, tol = (r, g, b), F(1, 2)
        for k in range(3):
            if not ocss.nearest_ok(got[k], exact[k], tol):
                raise Violation(f"wrong-colour:{case['kind']}", f"{s!r} over {bg_rgb} parsed to {got}; CSS defines {tuple(round(float(x), 3) for x in exact)} (tolerance {float(tol)})")
    else:
        got = _parse_both(s)
        for k, ex in enumerate((r, g, b)):
            if not ocss.nearest_ok(got[k], ex):
                raise Violation(f"wrong-colour:{case['kind']}", f"{s!r} parsed to {got}; CSS defines {tuple(round(float(x), 3) for x in (r, g, b))}")
    # metamorphic: re-spelt value (other case / surrounding whitespace) gives the identical tuple
    alt = case.get("alt")
    if alt:
        got2 = _parse_both(alt, None if (bg is None or not translucent) else gc.dec(bg))
        if got2 != got:
            raise Violation("respelling-changes-result", f"{s!r} -> {got} but equivalent spelling {alt!r} -> {got2}")
    feats = case.get("feats", [])
    return {"nt": (s, str(bg)) if feats else None, "cls": [f"kind:{case['kind']}"] + [f"feat:{f}" for f in feats],
            "sample": {"s": s, "bg": bg, "parsed": list(got)}}


@st.composite
def func_strategy(draw):
    s, kind, feats = draw(cssstr.css_function())
    case = {"s": s, "kind": kind, "feats": feats}
    if kind in ("rgba", "rgbap", "hsla") and draw(st.integers(0, 3)) > 0:
        bg = draw(gc.rgb())
        barg, _, _ = draw(gc.spell(bg, kinds=["hex6", "tuple", "rgb", "list", "named", "HEX6"], allow_translucent=False))
        case["bg"] = barg
    k = draw(st.integers(0, 2))
    core = s.strip(" \t\n\r\f")
    if k == 0:
        case["alt"] = core.swapcase()
    elif k == 1:
        case["alt"] = draw(cssstr.ws) + core.upper() + draw(cssstr.ws)
    return case


# ---- hex / keywords / tuples --------------------------------------------------------------------------------


def hex_block_factory(stride):
    def block(shard, nshards):
        cp = _lib()
        parse = cp.parse_color_to_rgb
        viol = []
        n = 0
        idx = 0
        for r in range(shard, 256, nshards):
            for g in range(256):
                for b in range(256):
                    idx += 1
                    if stride > 1 and idx % stride:
                        continue
                    s = f"#{r:02x}{g:02x}{b:02x}"
                    variants = (s,) if idx % 97 else (s, s.upper(), s[1:], s[1:].upper(), s[:4].upper() + s[4:], "  " + s + "\t")
                    for v in variants:
                        n += 1
                        try:
                            got = parse(v)
                        except Exception as e:
                            if len(viol) < 5:
                                viol.append({"bucket": "hex-rejected", "msg": f"{v!r} rejected: {e!r}", "case": {"s": v}})
                            continue
                        if got != (r, g, b):
                            if len(viol) < 5:
                                viol.append({"bucket": "hex-wrong", "msg": f"{v!r} parsed to {got}", "case": {"s": v}})
        return {"evals": n, "nt": n, "violations": viol, "classes": {"hex6": n}, "samples": [{"s": f"#{shard:02x}a0ff"}]}

    return block


def hex3_items(shard, nshards):
    out = []
    for i in range(shard, 4096, nshards):
        h = f"{i:03x}"
        out.append({"s": "#" + h})
        if i % 5 == 0:
            out.append({"s": "#" + h.upper()})
        if i % 7 == 0 and h not in ocss.KEYWORDS:
            out.append({"s": h})
    return out


def literal_judge(case):
    s = case["s"]
    want = ocss.read_rgb(s if s.strip().startswith("#") or s.strip().lower() in ocss.KEYWORDS else "#" + s.strip())
    got = _parse_both(s)
    if got != want:
        raise Violation("literal-wrong", f"{s!r} parsed to {got}, CSS defines {want}")
    return {"nt": s, "cls": ["literal"]}


def keyword_items(shard, nshards):
    out = []
    for i, k in enumerate(gc.KW_LIST):
        if i % nshards != shard:
            continue
        mixed = "".join(ch.upper() if j % 2 else ch for j, ch in enumerate(k))
        for v in (k, k.upper(), k.capitalize(), mixed, "  " + k + " ", "\t" + k.upper() + "\n"):
            out.append({"s": v})
    return out


def tuple_judge(case):
    v = gc.dec(case["v"])
    got = _parse_both(v)
    if got != tuple(v):
        raise Violation("tuple-not-itself", f"{v!r} parsed to {got}")
    return {"nt": str(case["v"]), "cls": ["tuple" if isinstance(v, tuple) else "list"]}


def tuple_strategy():
    return st.tuples(gc.rgb(), st.booleans()).map(lambda t: {"v": gc.enc(t[0] if t[1] else list(t[0]))})


def subchecks(tier):
    q = tier == "quick"
    return [
        Enum("hex6-enumeration", block=hex_block_factory(64 if q else 1), judge=literal_judge, exhaustive=not q),
        Enum("hex3-all-4096", judge=literal_judge, items=hex3_items, exhaustive=True),
        Enum("keywords-148-x-case", judge=literal_judge, items=keyword_items, exhaustive=True),
        Hyp("int-tuples-and-lists", tuple_strategy, tuple_judge, examples=4000 if q else 100000),
        Hyp("functional-notations", func_strategy, func_judge, examples=60000 if q else 2000000),
    ] + ([] if q else [
        # coverage-guided: libFuzzer's bytes drive the same structured generator (hypothesis.fuzz_one_input), oracle inside
        Enum("atheris-structured-functional-notations", block=atheris_block(), judge=func_judge),
    ])


def atheris_block():
    from vlib.fuzzstage import atheris_block_factory

    return atheris_block_factory("c07_atheris.py", "C07_RESULT", 60000, max_len=256, label="atheris+hypothesis")
