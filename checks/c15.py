"""C15 — results are pure functions of the arguments: no history or thread dependence."""
import json
import os
import subprocess
import sys
import threading
from collections import deque
from concurrent.futures import ThreadPoolExecutor

from hypothesis import strategies as st
from hypothesis.stateful import RuleBasedStateMachine, invariant, precondition, rule

from vlib import c15ops
from vlib.gen.colors import dec, enc
from vlib.runner import Enum, HarnessError, Hyp, VERIF_DIR, Violation, exc_bucket
from vlib.sandbox import Capture, Scratch

ID = "C15"
LEVEL = "exploration"
RULE = (
    "Reference: every operation of a deliberately small pool (texts x backgrounds x large x mode x very_readable for "
    "make_readable / is_readable, singleton bulk calls with 2- and 3-element entries, CLI runs over three small sheets) is "
    "evaluated ONCE PER BRAND-NEW INTERPRETER (subprocess), a sample again under PYTHONHASHSEED=1 and =random; the tables must "
    "agree. Search: Hypothesis RuleBasedStateMachine whose rules are construct / is_readable / make_readable (any settings, "
    "optionally show / save_report, on any live ColorPair object, so repeated calls on the same object occur) / "
    "make_readable_bulk over generated lists / in-process CLI run; after EVERY step the returned value is compared with the "
    "fresh-interpreter table and the attributes of every live ColorPair with the snapshot taken at construction. Library "
    "state persists across sequences within a worker process, so histories are much longer than one sequence. Thread leg: a "
    "fixed workload of pool operations run from 8 threads behind a barrier in Hypothesis-drawn orders; cold-start leg: fresh child "
    "interpreters whose very first library calls are made concurrently from 8 threads. The validity of 47 look-alike inputs is "
    "compared across six hash seeds. Non-trivial: sequences in "
    "which a probe follows an operation sharing its text or its background but not both, or follows a bulk / CLI run; distinct "
    "by step list."
)
ASSUMPTIONS = [
    "the harness does not own CPython's thread schedule: the concurrency clause is sampled, not enumerated",
    "fresh-interpreter results under three hash seeds agree (checked at start); they are the reference for every step",
]

TIER = "quick"
# (1, 1, 1) and (1.0, 1.0, 1.0) compare (and hash) equal in Python but denote different colours (8-bit ints vs unit floats):
# a cache keyed on the raw argument confuses them
TEXTS_Q = ["#777777", "#8a8a8a", enc((1, 1, 1)), enc((1.0, 1.0, 1.0)), "rgb(200, 30, 30)", "hsl(210, 40%, 45%)", "rgba(0, 0, 0, 0.45)"]
BGS_Q = ["#ffffff", "rgba(0, 0, 0, 0.5)", "#b7439e"]  # a translucent background is composited over white, whatever ran before
TEXTS_T = TEXTS_Q + ["#cfff04", "goldenrod", enc([253, 240, 243]), "#595959", enc((120, 130, 140)), "rgb(10, 20, 30, 0.6)"]
BGS_T = BGS_Q + ["#111111", enc((220, 20, 60)), "hsl(60, 80%, 85%)", "#fafafa"]
TABLE = {}
PROCESS_TRACE = deque(maxlen=800)


def pools():
    return (TEXTS_Q, BGS_Q) if TIER == "quick" else (TEXTS_T, BGS_T)


def bulk_modes():
    """bulk steps use the default mode only in the quick tier (keeps the fresh-interpreter table affordable)"""
    return (1,) if TIER == "quick" else (0, 1, 2)


def all_ops():
    texts, bgs = pools()
    ops = []
    for t in texts:
        for b in bgs:
            for large in (False, True):
                ops.append({"op": "readable", "t": t, "b": b, "large": large})
                for mode in (0, 1, 2):
                    for very in (False, True):
                        ops.append({"op": "make", "t": t, "b": b, "large": large, "mode": mode, "very": very})
            for large in (None, False, True):
                for mode in bulk_modes():
                    for very in (False, True):
                        ops.append({"op": "bulk", "entries": [{"t": t, "b": b, "large": large}], "mode": mode, "very": very})
    for sheet in c15ops.SHEETS:
        for mode in (0, 1, 2):
            for premium in (False, True):
                ops.append({"op": "cli", "sheet": sheet, "mode": mode, "premium": premium})
    ops += CLI_EXTRA
    return ops


# CLI runs with --default-bg, incl. one over a directory that holds no stylesheet at all (the early-return path)
CLI_EXTRA = [{"op": "cli", "sheet": "none", "mode": 1, "premium": False, "default_bg": "black"},
             {"op": "cli", "sheet": "plain", "mode": 1, "premium": False, "default_bg": "black"},
             {"op": "cli", "sheet": "dark", "mode": 1, "premium": True, "default_bg": "#222222"}]

# inputs whose VALIDITY must not depend on the hash seed: near-miss CSS with units and other look-alikes
VALIDITY_PROBES = ["hsl(100grad, 60%, 40%)", "hsl(1.5rad, 60%, 40%)", "hsl(0.25turn, 60%, 40%)", "hsl(90deg, 60%, 40%)", "hsla(100grad, 60%, 40%, 0.5)",
                   "rgb(1 2 3)", "1, 2, 3", "(1,2,3)", "rgb(10%, 20%, 30%)", "#abc", "abc", "abcdef", "transparent", "currentcolor", "inherit", "rgb(1,2,3,4,5)",
                   "hsl(120 50% 50%)", "hsla(120 50% 50% / 0.5)", "rgb(255, 255, 256)", "rgb(-1, 0, 0)", "hsl(0, 101%, 50%)", "red ", " RED", "Rebeccapurple", "grey", "gray",
                   "rgba(1,2,3,50)", "rgba(1,2,3,101)", "#12", "#1234", "#12345678", "rgb(1e2, 0, 0)", "50%", "0.5 0.5 0.5", "rgb 1 2 3", "hsv(1,2,3)",
                   enc((1, 2)), enc((0.5, 0.5, 0.5)), enc((210, 0.5, 0.6)), enc((210, 1, 0.5)), enc(("1", "2", "3")), enc((None, 1, 2)), enc((True, False, True)),
                   enc((0.2, 0.4, 0.6, 0.5)), enc((300, 0.5, 0.5, 0.5)), enc([255, 255, 255, 1]), enc((1, 2, 3, 4, 5))]


def fresh(op, hashseed="0"):
    env = dict(os.environ)
    env["PYTHONPATH"] = os.pathsep.join([os.path.join(env.get("VERIF_REPO", "/repo"), "src"), VERIF_DIR])
    env["PYTHONHASHSEED"] = hashseed
    env["PYTHONDONTWRITEBYTECODE"] = "1"
    p = subprocess.run([sys.executable, "-m", "vlib.c15ops", json.dumps(op)], env=env, capture_output=True, text=True, cwd=VERIF_DIR, timeout=600)
    if p.returncode != 0:
        return {"__error__": p.stderr.strip().splitlines()[-1] if p.stderr.strip() else f"exit {p.returncode}"}
    return json.loads(p.stdout.strip().splitlines()[-1])


def selftest():
    """Builds the fresh-interpreter reference table (one interpreter per operation)."""
    global TABLE
    ops = all_ops()
    with ThreadPoolExecutor(max_workers=16) as ex:
        res = list(ex.map(fresh, ops))
    TABLE = {c15ops.op_key(o): r for o, r in zip(ops, res)}
    errs = [(o, r) for o, r in zip(ops, res) if isinstance(r, dict) and "__error__" in r]
    if errs:
        raise HarnessError(f"fresh-interpreter evaluation failed for {len(errs)} operations, e.g. {errs[0]}")
    # validity of look-alike inputs under the three hash seeds (one interpreter per seed)
    vop = {"op": "valid", "xs": VALIDITY_PROBES}
    vres = {hs: fresh(vop, hs) for hs in ("0", "1", "2", "3", "4", "random")}
    for hs in ("1", "2", "3", "4", "random"):
        if vres[hs] != vres["0"]:
            bad = [(x, a, b) for x, a, b in zip(VALIDITY_PROBES, vres["0"], vres[hs]) if a != b][:2] if isinstance(vres[hs], list) and isinstance(vres["0"], list) else [vres[hs]]
            TABLE["__hashseed_violation__"] = {"op": "Color(x).is_valid / .rgb", "differs_for": bad, "hashseed": hs}
            return
    # hash-seed independence of the reference itself (sample)
    sample = ops[:: max(1, len(ops) // 48)]
    for hs in ("1", "random"):
        with ThreadPoolExecutor(max_workers=16) as ex:
            again = list(ex.map(lambda o: fresh(o, hs), sample))
        for o, r in zip(sample, again):
            if r != TABLE[c15ops.op_key(o)]:
                TABLE["__hashseed_violation__"] = {"op": o, "seed0": TABLE[c15ops.op_key(o)], "other": r, "hashseed": hs}
                return


def expected(op):
    k = c15ops.op_key(op)
    if k not in TABLE:
        TABLE[k] = fresh(op)
    return TABLE[k]


# ---- executing steps (shared by the state machine, the thread leg and replay) ----------------------------------


class State:
    def __init__(self):
        self.pairs = []  # (pair, spec, snapshot)


def _snapshot(p):
    return (p.text.rgb, p.bg.rgb, p.large, p.text._format if hasattr(p.text, "_format") else None, repr(p.text.original), repr(p.bg.original),
            p.text.is_valid, p.bg.is_valid, p.text.error, p.bg.error)


def apply_step(state, step, trace):
    from cm_colors import ColorPair, make_readable_bulk

    texts, bgs = pools()
    do = step["do"]
    desc = None
    try:
        if do == "construct":
            t, b = texts[step["t"] % len(texts)], bgs[step["b"] % len(bgs)]
            p = ColorPair(dec(t), dec(b), step["large"])
            state.pairs.append((p, {"t": t, "b": b, "large": step["large"]}, _snapshot(p)))
        elif do == "readable":
            p, spec, _ = state.pairs[step["i"] % len(state.pairs)]
            got = p.is_readable
            want = expected(dict(op="readable", **spec))
            if got != want:
                raise Violation("is_readable-depends-on-history", f"is_readable of {spec} = {got!r}; a fresh interpreter gives {want!r}; after steps {trace[-6:]}")
        elif do == "make":
            p, spec, _ = state.pairs[step["i"] % len(state.pairs)]
            if step.get("show") or step.get("save"):
                with Scratch("c15m_"):
                    with Capture():
                        got = p.make_readable(mode=step["mode"], very_readable=step["very"], show=bool(step.get("show")), save_report=bool(step.get("save")))
            else:
                got = p.make_readable(mode=step["mode"], very_readable=step["very"])
            want = expected(dict(op="make", mode=step["mode"], very=step["very"], **spec))
            if c15ops._norm(got) != want:
                raise Violation("make_readable-depends-on-history", f"make_readable(mode={step['mode']}, very_readable={step['very']}) of {spec} = {got!r}; a fresh interpreter gives {want!r}; after steps {trace[-6:]}")
        elif do == "bulk":
            entries, specs = [], []
            for e in step["entries"]:
                t, b = texts[e["t"] % len(texts)], bgs[e["b"] % len(bgs)]
                specs.append({"t": t, "b": b, "large": e["large"]})
                entries.append((dec(t), dec(b)) if e["large"] is None else (dec(t), dec(b), e["large"]))
            got = make_readable_bulk(entries, mode=step["mode"], very_readable=step["very"])
            if len(got) != len(entries):
                raise Violation("bulk-length", f"bulk returned {len(got)} for {len(entries)} entries")
            for i, s in enumerate(specs):
                want = expected({"op": "bulk", "entries": [s], "mode": step["mode"], "very": step["very"]})[0]
                if c15ops._norm(got[i]) != want:
                    raise Violation("bulk-entry-depends-on-position-or-history", f"bulk entry {i} {s} (mode={step['mode']}, very_readable={step['very']}) = {got[i]!r}; alone in a fresh interpreter it gives {want!r}; list {specs}")
        elif do == "cli":
            op = {"op": "cli", "sheet": step["sheet"], "mode": step["mode"], "premium": step["premium"]}
            if step.get("default_bg"):
                op["default_bg"] = step["default_bg"]
            got = c15ops.run_op(op)
            want = expected(op)
            if got != want:
                diff = [k for k in want if got.get(k) != want[k]]
                raise Violation("cli-depends-on-history", f"in-process CLI run {op} differs from a fresh interpreter in {diff}: got {str({k: got[k] for k in diff})[:300]} expected {str({k: want[k] for k in diff})[:300]}")
    except Violation:
        raise
    except Exception as e:
        raise Violation(exc_bucket(e), f"step {step} raised {e!r}")
    for p, spec, snap in state.pairs:
        now = _snapshot(p)
        if now != snap:
            raise Violation("colorpair-mutated", f"ColorPair {spec} changed from {snap} to {now} after step {step}")


def run_trace(steps, before=()):
    """Execute a recorded sequence on fresh objects; `before` = steps of earlier sequences of the same
    process (their own verdicts are ignored, they only recreate the library-level history)."""
    warm = State()
    for s in before:
        try:
            if s["do"] in ("readable", "make") and not warm.pairs:
                continue
            apply_step(warm, s, [])
        except Violation:
            pass
    state = State()
    trace = []
    for s in steps:
        trace.append(s)
        apply_step(state, s, trace)


def replay(subname, case):
    if "__hashseed_violation__" in TABLE:
        raise Violation("hash-seed-dependent", str(TABLE["__hashseed_violation__"]))
    if subname.startswith("threads"):
        return thread_judge(case)
    run_trace(case["steps"])
    if case.get("before"):
        run_trace(case["steps"], before=case["before"])


# ---- the state machine --------------------------------------------------------------------------------------------

_idx = st.integers(0, 11)
_mode = st.sampled_from([0, 1, 2])


class PurityMachine(RuleBasedStateMachine):
    _verif_part = None
    _first = None

    def __init__(self):
        super().__init__()
        self.state = State()
        self.trace = []
        self.before = list(PROCESS_TRACE)
        self.seen_texts, self.seen_bgs, self.seen_pairs = set(), set(), set()
        self.after_bulk_or_cli = False
        self.nontrivial = False
        if "__hashseed_violation__" in TABLE:
            raise Violation("hash-seed-dependent", f"fresh-interpreter results differ between hash seeds: {TABLE['__hashseed_violation__']}", {"steps": [], "before": []})

    def _do(self, step):
        self.trace.append(step)
        PROCESS_TRACE.append(step)
        if self._verif_part is not None:
            self._verif_part.evals += 1
        try:
            apply_step(self.state, step, self.trace)
        except Violation as v:
            v.case = {"steps": list(self.trace), "before": self.before}
            if type(self)._first is None:
                type(self)._first = {"bucket": v.bucket, "msg": v.msg, "case": v.case}
            raise

    def _probe_class(self, spec):
        t, b = json.dumps(spec["t"]), json.dumps(spec["b"])
        shares_one = ((t in self.seen_texts) != (b in self.seen_bgs)) or ((t in self.seen_texts) and (b in self.seen_bgs) and (t, b) not in self.seen_pairs)
        if shares_one or self.after_bulk_or_cli:
            self.nontrivial = True
        self.seen_texts.add(t)
        self.seen_bgs.add(b)
        self.seen_pairs.add((t, b))

    @rule(t=_idx, b=_idx, large=st.booleans())
    def construct(self, t, b, large):
        self._do({"do": "construct", "t": t, "b": b, "large": large})

    @precondition(lambda self: self.state.pairs)
    @rule(i=_idx)
    def is_readable(self, i):
        self._probe_class(self.state.pairs[i % len(self.state.pairs)][1])
        self._do({"do": "readable", "i": i})

    @precondition(lambda self: self.state.pairs)
    @rule(i=_idx, mode=_mode, very=st.booleans(), flags=st.sampled_from([(0, 0)] * 6 + [(1, 0), (0, 1), (1, 1)]))
    def make_readable(self, i, mode, very, flags):
        self._probe_class(self.state.pairs[i % len(self.state.pairs)][1])
        step = {"do": "make", "i": i, "mode": mode, "very": very}
        if flags[0]:
            step["show"] = True
        if flags[1]:
            step["save"] = True
        self._do(step)

    @rule(entries=st.lists(st.fixed_dictionaries({"t": _idx, "b": _idx, "large": st.sampled_from([None, None, False, True])}), min_size=0, max_size=5), mode=_mode, very=st.booleans())
    def bulk(self, entries, mode, very):
        if mode not in bulk_modes():
            mode = 1
        self._do({"do": "bulk", "entries": entries, "mode": mode, "very": very})
        texts, bgs = pools()
        for e in entries:
            self.seen_texts.add(json.dumps(texts[e["t"] % len(texts)]))
            self.seen_bgs.add(json.dumps(bgs[e["b"] % len(bgs)]))
        self.after_bulk_or_cli = True

    @rule(sheet=st.sampled_from(sorted(c15ops.SHEETS)), mode=_mode, premium=st.booleans())
    def cli(self, sheet, mode, premium):
        self._do({"do": "cli", "sheet": sheet, "mode": mode, "premium": premium})
        self.after_bulk_or_cli = True

    @rule(k=st.integers(0, len(CLI_EXTRA) - 1))
    def cli_with_default_bg(self, k):
        e = CLI_EXTRA[k]
        self._do({"do": "cli", "sheet": e["sheet"], "mode": e["mode"], "premium": e["premium"], "default_bg": e["default_bg"]})
        self.after_bulk_or_cli = True

    def teardown(self):
        part = self._verif_part
        if part is not None and self.trace:
            info = {"nt": json.dumps(self.trace) if self.nontrivial else None, "cls": [f"steps:{min(len(self.trace) // 10 * 10, 50)}+"] + sorted({"rule:" + s["do"] for s in self.trace}),
                    "sample": {"steps": self.trace[:12]}}
            part.record(info, {"steps": self.trace[:12]})


def machine_factory():
    return PurityMachine


def machine_judge(case):
    """Replay of a recorded sequence (no Hypothesis)."""
    replay("history-state-machine", case)


# ---- thread leg ------------------------------------------------------------------------------------------------------


def _workload():
    texts, bgs = pools()
    w = []
    for i, t in enumerate(texts[:4]):
        for j, b in enumerate(bgs[:3]):
            w.append({"op": "make", "t": t, "b": b, "large": bool((i + j) % 2), "mode": (i + j) % 3, "very": bool(i % 2)})
            w.append({"op": "readable", "t": t, "b": b, "large": bool(j % 2)})
    w.append({"op": "bulk", "entries": [{"t": texts[0], "b": bgs[0], "large": None}], "mode": 1, "very": False})
    w.append({"op": "bulk", "entries": [{"t": texts[1], "b": bgs[1], "large": True}], "mode": 1, "very": True})
    return w


def thread_judge(case):
    if "__hashseed_violation__" in TABLE:
        raise Violation("hash-seed-dependent", str(TABLE["__hashseed_violation__"]))
    w = _workload()
    order = [w[i % len(w)] for i in case["order"]]
    nthreads = case["threads"]
    results = [None] * len(order)
    errors = []
    barrier = threading.Barrier(nthreads)

    def worker(k):
        try:
            barrier.wait(timeout=30)
            for idx in range(k, len(order), nthreads):
                results[idx] = c15ops.run_op(order[idx])
        except Exception as e:  # noqa: BLE001
            errors.append((k, e))

    old = sys.getswitchinterval()
    sys.setswitchinterval(1e-5)
    try:
        ths = [threading.Thread(target=worker, args=(k,)) for k in range(nthreads)]
        for t in ths:
            t.start()
        for t in ths:
            t.join(timeout=600)
    finally:
        sys.setswitchinterval(old)
    if errors:
        k, e = errors[0]
        raise Violation(exc_bucket(e), f"thread {k} raised {e!r} while running the workload concurrently")
    for op, got in zip(order, results):
        want = expected(op)
        if got != want:
            raise Violation("result-depends-on-threads", f"{op} run concurrently from {nthreads} threads gave {got!r}; a fresh interpreter gives {want!r}")
    return {"nt": ("threads", tuple(case["order"]), nthreads), "cls": [f"threads:{nthreads}"], "sample": {"order": case["order"][:16], "threads": nthreads}}


def thread_strategy():
    n = len(_workload())
    return st.tuples(st.lists(st.integers(0, n - 1), min_size=16, max_size=48), st.sampled_from([2, 4, 8, 8])).map(lambda t: {"order": t[0], "threads": t[1]})


def cold_items(shard, nshards):
    n = 6 if TIER == "quick" else 48
    return [{"child": i} for i in range(n) if i % nshards == shard]


def cold_judge(case):
    """A brand-new interpreter whose very first library calls come from 8 threads at once (1 microsecond switch interval):
    lazily initialised module state must not make results depend on who gets there first."""
    if "__hashseed_violation__" in TABLE:
        raise Violation("hash-seed-dependent", str(TABLE["__hashseed_violation__"]))
    w = _workload()
    k = case["child"]
    ops = w[k % len(w):] + w[: k % len(w)]
    env = dict(os.environ)
    env["PYTHONPATH"] = os.pathsep.join([os.path.join(env.get("VERIF_REPO", "/repo"), "src"), VERIF_DIR])
    p = subprocess.run([sys.executable, "-m", "vlib.c15ops", "--cold", json.dumps(ops)], env=env, capture_output=True, text=True, cwd=VERIF_DIR, timeout=900)
    if p.returncode != 0:
        raise Violation("cold-start-crash", f"fresh interpreter with concurrent first calls died: {p.stderr[-300:]}")
    doc = json.loads(p.stdout.strip().splitlines()[-1])
    if doc["errors"]:
        raise Violation("cold-start-thread-raises", f"first calls made concurrently from 8 threads in a fresh interpreter raised: {doc['errors'][:2]}")
    for op, got in zip(ops, doc["results"]):
        want = expected(op)
        if got != want:
            raise Violation("cold-start-result-differs", f"{op} as one of the first concurrent calls of a fresh interpreter gave {got!r}; alone it gives {want!r}")
    return {"nt": ("cold", k), "cls": ["cold-start-threads"], "sample": {"child": k, "first_ops": ops[:3]}}


def subchecks(tier):
    q = tier == "quick"
    return [
        Hyp("history-state-machine", machine_factory, machine_judge, examples=256 if q else 6400, stateful=True, step_count=30 if q else 50),
        Hyp("threads-fixed-workload", thread_strategy, thread_judge, examples=24 if q else 320, shards=4 if q else 16),
        Enum("cold-start-threads", judge=cold_judge, items=cold_items, shards=6 if q else 16),
    ]
