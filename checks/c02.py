"""C02 — fixing never harms: readable colours are kept, contrast never drops."""
from hypothesis import strategies as st

from vlib import optim
from vlib.gen import colors as gc
from vlib.oracles import css as ocss
from vlib.oracles import wcag as ow
from vlib.runner import Hyp, Violation

ID = "C02"
LEVEL = "exploration"
RULE = (
    "Hypothesis pairs re-weighted around the ACTIVE minimum of the drawn setting: 40% already meet it (a hair above up to "
    "comfortably, so each of the four early-return thresholds is exercised: [4.5,7) with/without very_readable, [3,4.5) with "
    "large), 30% just below, 10% text == background, 20% uniform; every spelling incl. translucent x modes x large x "
    "very_readable. Non-trivial: (a) passing pairs whose ratio is below the search target 7.0/4.5 (the optimiser would move "
    "them if the early return were missing); (b) failing pairs whose returned colour differs from the input. Distinct by "
    "(text, bg, settings, spelling)."
)
ASSUMPTIONS = [
    "pair.text.rgb is taken as the original (composited) colour; that the composite is right is C13/C07",
    "O-WCAG / O-CSS; ratios within 1e-9 of the minimum re-judged in decimal; contrast comparison slack 1e-12",
]


def selftest():
    ow.selftest()
    ocss.selftest()


def judge(case):
    pair, t, b = optim.make_pair(case)
    if not pair.is_valid:
        return {"skip": "library-rejects-spelling"}
    bg, same = optim.judged_bg(pair, b)
    if not same:
        return {"skip": "bg-parsed-differently(C07)"}
    minimum = optim.minimum_for(case)
    orig = optim.true_original(pair, t, bg)  # the library's composite unless it is off the exact blend by more than 1.5 units
    passes = ow.meets(orig, bg, minimum)
    if passes is None:
        return {"skip": "indeterminate-threshold"}
    result, success = optim.call_make_readable(pair, case)
    rgbs = optim.readback_set(result)
    r0 = ow.ratio(orig, bg)
    if passes:
        if success is not True:
            raise Violation("passing-pair-not-success", f"pair already meets {minimum} (ratio {r0:.6f}) but success={success!r}, returned {result!r}; {optim.describe(case)}")
        if orig not in rgbs:
            raise Violation("passing-pair-changed", f"pair already meets {minimum} (ratio {r0:.6f}) but returned {result!r} which reads as {sorted(rgbs)} instead of the original {orig}; {optim.describe(case)}")
        target = 4.5 if case["large"] else 7.0
        nt = (orig, bg, case["large"], case["very"], case["mode"], case.get("tkind")) if r0 < target else None
        cls = [f"passing:{'below-target' if r0 < target else 'above-target'}:min{minimum}"]
    else:
        worst = min(ow.ratio(c, bg) for c in rgbs)
        if worst < r0 - 1e-12:
            raise Violation("contrast-dropped", f"returned {result!r} has contrast {worst:.6f} < original {r0:.6f} against {bg} (success={success}); {optim.describe(case)}")
        moved = orig not in rgbs
        nt = (orig, bg, case["large"], case["very"], case["mode"], case.get("tkind")) if moved else None
        cls = [f"failing:{'moved' if moved else 'unmoved'}:{'success' if success else 'fail'}:mode{case['mode']}"]
    if orig == bg:
        cls.append("text==bg")
    return {"nt": nt, "cls": cls + [f"spell:{case.get('tkind')}"],
            "sample": {"text": case["text"], "bg": case["bg"], "large": case["large"], "very": case["very"], "mode": case["mode"],
                       "original_ratio": round(r0, 4), "minimum": minimum, "result": result if isinstance(result, str) else list(result), "success": success}}


@st.composite
def _pairs_for_setting(draw):
    large, very, mode = draw(gc.settings3())
    minimum = ow.minimum(large, very)
    k = draw(st.integers(0, 9))
    if k < 4:
        # already passes: a hair above up to comfortably above
        if draw(st.booleans()):
            text, bg, meta = draw(gc.pair_near(thresholds=(minimum,), delta_lo=0.0, delta_hi=0.02, tight=0.02))
        else:
            text, bg, meta = draw(gc.pair_near(thresholds=(minimum,), delta_lo=0.0, delta_hi=0.9, tight=0.9))
    elif k < 7:
        text, bg, meta = draw(gc.pair_near(thresholds=(minimum,), delta_lo=-0.12, delta_hi=0.0, tight=0.02))
    elif k < 8:
        bg = draw(gc.rgb())
        text, meta = bg, {"thr": minimum, "delta": None, "lighter": None, "band": gc.band(bg)}
    else:
        text, bg, meta = draw(optim.uniform_pairs())
    kk = draw(st.integers(0, 99))
    if kk < 10:
        targ, kind = draw(gc.translucent_near(text, bg, css4=True))
        tkind = "translucent:" + kind
    else:
        targ, tkind, _ = draw(gc.spell(text))
    barg, bkind, _ = draw(gc.spell(bg, allow_translucent=False))
    if draw(st.integers(0, 11)) == 0:
        # the library's other tuple spellings of an opaque background (unit floats / numeric strings)
        barg = gc.enc(tuple(round(c / 255.0, 3) for c in bg)) if draw(st.booleans()) else gc.enc(tuple(str(c) for c in bg))
        bkind = "lib-tuple"
    case = {"text": targ, "bg": barg, "large": large, "very": very, "mode": mode, "tkind": tkind, "bkind": bkind, "meta": meta}
    w = draw(optim.warm())
    if w:
        case["warm"] = w
    if tkind.startswith("translucent") and draw(st.booleans()):
        # translucent text: the same literal was composited over another background earlier in the process
        case["warm"] = dict(case.get("warm") or {"mode": draw(st.sampled_from([0, 1, 2])), "very": draw(st.booleans()), "large": None},
                            other_bg=draw(st.sampled_from(["#ffffff", "#000000", "#808080", "#b7439e"])))
    return case


def subchecks(tier):
    q = tier == "quick"
    return [Hyp("keep-or-improve", _pairs_for_setting, judge, examples=9000 if q else 240000)]
