"""C18 — CLI batches: per-file isolation, bad files skipped, outputs never re-consumed."""
import os

from hypothesis import strategies as st

from vlib import cli
from vlib.gen import sheets
from vlib.oracles import sheet as osh
from vlib.runner import HarnessError, Hyp, Violation

ID = "C18"
LEVEL = "fault_enumeration"
RULE = (
    "Hypothesis G-tree: 1-4 generated stylesheets placed in a directory tree (names with spaces / non-ASCII / containing '_cm', "
    "sub-directories), optionally a pre-existing *_cm.css file that is not an output, and cross-file custom properties (one file "
    "defines --xf/--xb in :root, another uses var(--xf[, fallback]) without defining them). For every tree the fault placements are "
    "ENUMERATED: each fault kind {non-UTF-8 bytes, directory named *.css, dangling symlink *.css, stylesheet tinycss2 cannot "
    "re-serialise, empty file} x each directory of the tree x {a name that sorts first, a name that sorts last} (all of them for "
    "trees with <= 2 directories, a drawn half otherwise), plus write-side faults: the place of each healthy file's output occupied by "
    "a directory or a dangling link. Each placement is run as a directory; the fault-free tree is also run "
    "twice in a row; every healthy file is run alone on a pristine copy. Oracle: byte-identical outputs, 'Error processing <path>' "
    "for faulty entries, no output for them, no *_cm_cm.css, second run reproduces the first, foreign *_cm.css untouched. "
    "evaluations = CLI runs; non-trivial: (tree, placement) runs with >= 2 healthy sheets and a fault or a cross-file variable; "
    "distinct by (tree, placement)."
)
ASSUMPTIONS = [
    "traversal order is whatever Path.rglob yields on this file system; it is varied through file names and directories, not controlled",
    "an empty stylesheet is not an error: it must simply produce an (empty) output like any other file",
]

FAULT_KINDS = ["non-utf8", "dir-named-css", "dangling-link", "unserialisable", "empty"]
# write-side faults: the place where a healthy file's output belongs is occupied (rel = that healthy file)
WRITE_FAULTS = ["output-is-directory", "output-is-dangling-link"]
UNSERIALISABLE = ":root { *zoom: 1; --x: 1px }\n.broken { color: #777777 }\n"


def selftest():
    osh.selftest()


def _place_fault(root, kind, rel):
    p = os.path.join(root, rel)
    os.makedirs(os.path.dirname(p), exist_ok=True)
    if kind == "non-utf8":
        with open(p, "wb") as f:
            f.write(b".a { color: #777 } /* \xff\xfe\xfa */\n")
    elif kind == "dir-named-css":
        os.makedirs(p)
    elif kind == "dangling-link":
        os.symlink(os.path.join(root, "does-not-exist.css"), p)
    elif kind == "unserialisable":
        with open(p, "w", encoding="utf-8") as f:
            f.write(UNSERIALISABLE)
    elif kind == "empty":
        open(p, "w").close()
    elif kind == "output-is-directory":
        os.makedirs(os.path.join(root, cli.out_name(rel)))
    elif kind == "output-is-dangling-link":
        os.symlink(os.path.join(root, "no-such-dir", "x.css"), os.path.join(root, cli.out_name(rel)))


def _outputs(run, rels):
    return {rel: run["texts"].get(cli.out_name(rel)) for rel in rels}


def judge(case):
    files = case["files"]          # {rel under 'site/': css}
    foreign = case.get("foreign")  # optional (rel, css) of a pre-existing *_cm.css that is not an output
    settings = case["settings"]
    what = f"tree {sorted(files)} settings {settings}"
    for css in files.values():
        if osh.has_error(osh.normal(css)):
            raise HarnessError(f"generated sheet does not parse cleanly: {css!r}")
    runs = 0
    # reference: every healthy file alone on a pristine copy
    alone = {}
    for rel, css in files.items():
        r = cli.run_cli({rel: css}, rel, settings)
        runs += 1
        if r["exit"] != 0 or "Error processing" in r["stderr"]:
            raise Violation("single-file-run-failed", f"{rel}: exit {r['exit']} stderr {r['stderr'][-200:]!r}")
        alone[rel] = r["texts"].get(cli.out_name(rel))
        if alone[rel] is None:
            raise Violation("single-file-run-no-output", f"{rel} alone produced no output; {what}")
    base_files = dict(files)
    if foreign:
        base_files[foreign[0]] = foreign[1]
    nontrivial_keys = []

    def check_dir_run(run, label, fault=None):
        if run["exit"] != 0 or run["exception"]:
            raise Violation("directory-run-aborted", f"{label}: cm-colors exited {run['exit']} ({run['exception']}); stderr {run['stderr'][-300:]!r}; {what}")
        outs = _outputs(run, files)
        blocked = fault[1] if fault and fault[0] in WRITE_FAULTS else None
        for rel in files:
            if rel == blocked:
                continue  # its output cannot be written: it is the faulty file of this run
            if outs[rel] is None:
                raise Violation("healthy-file-without-output", f"{label}: {rel} has no output although it is a valid stylesheet (stderr {run['stderr'][-200:]!r}); {what}")
            if outs[rel] != alone[rel]:
                raise Violation("output-differs-from-single-file-run", f"{label}: {cli.out_name(rel)} differs from the stand-alone run of {rel}: {outs[rel][:300]!r} vs {alone[rel][:300]!r}; {what}")
        for rel in run["after"]:
            if rel.endswith("_cm_cm.css"):
                raise Violation("output-reconsumed", f"{label}: {rel} appeared; {what}")
        if foreign:
            if run["after"].get(foreign[0]) != run["before"].get(foreign[0]):
                raise Violation("foreign-cm-file-touched", f"{label}: pre-existing {foreign[0]} changed; {what}")
        for rel in run["before"]:
            if run["after"].get(rel) != run["before"][rel] and not rel.endswith("_cm.css") and rel != cli.REPORT:
                raise Violation("input-modified", f"{label}: {rel} changed; {what}")
        expected_new = {cli.out_name(rel) for rel in files if rel != blocked}
        if fault and fault[0] == "empty":
            expected_new.add(cli.out_name(fault[1]))
        new = {rel for rel in run["after"] if rel not in run["before"] and rel != cli.REPORT}
        if new != expected_new - set(run["before"]):
            raise Violation("unexpected-files", f"{label}: created {sorted(new)}, expected {sorted(expected_new)}; {what}")
        if fault and fault[0] != "empty":
            if "Error processing" not in run["stderr"] or os.path.basename(fault[1]) not in run["stderr"]:
                raise Violation("fault-not-reported", f"{label}: no 'Error processing' line for {fault[1]} on stderr ({run['stderr'][-200:]!r}); {what}")

    # fault-free directory run, twice in a row over the same tree
    from vlib.sandbox import Scratch, tree_snapshot  # noqa: F401

    first = cli.run_cli(base_files, "site", settings)
    runs += 1
    check_dir_run(first, "fault-free directory run")
    # second run over the tree as the first run left it (inputs + outputs + report)
    again_files = {rel: first["texts"][rel] for rel, meta in first["after"].items() if meta[0] == "file"}
    second = cli.run_cli(again_files, "site", settings)
    runs += 1
    check_dir_run(second, "repeated directory run")
    for rel in first["after"]:
        if rel == cli.REPORT:
            continue
        if first["texts"].get(rel) != second["texts"].get(rel):
            raise Violation("repeat-run-differs", f"{rel} differs after running the tool a second time over the same tree; {what}")
    extra = set(second["after"]) - set(first["after"]) - {cli.REPORT}
    if extra:
        raise Violation("repeat-run-creates-files", f"second run created {sorted(extra)}; {what}")
    if first["counts"] != second["counts"]:
        raise Violation("repeat-run-counts-differ", f"first run counted {first['counts']}, second {second['counts']}; {what}")
    if case.get("cross"):
        nontrivial_keys.append(("cross-file-variable", str(sorted(files)), str(settings)))

    # enumerated fault placements
    for kind, rel in case["placements"]:
        def setup(root, kind=kind, rel=rel):
            _place_fault(root, kind, rel)

        run = cli.run_cli(base_files, "site", settings, setup=setup)
        runs += 1
        check_dir_run(run, f"fault {kind} at {rel}", fault=(kind, rel))
        if len(files) >= 2:
            nontrivial_keys.append((kind, rel, str(sorted(files)), str(settings)))

    return {"nt_multi": nontrivial_keys, "runs": runs,
            "cls": [f"files:{len(files)}", f"placements:{min(len(case['placements']), 20)}", "cross-file-var" if case.get("cross") else "no-cross-var"] + sorted({f"fault:{k}" for k, _ in case["placements"]}),
            "sample": {"files": {k: v[:200] for k, v in files.items()}, "placements": case["placements"][:6], "settings": settings}}


def judge_counted(case):
    """Adapter: one Hypothesis case performs many CLI runs; report each (tree, placement) as its own non-trivial key."""
    info = judge(case)
    keys = info.pop("nt_multi")
    info["nt"] = keys[0] if keys else None
    info["extra_nt"] = keys[1:]
    return info


NAMES = ["s.css", "main.css", "a b.css", "ünï.css", "x_cm_y.css", "theme.min.css", "zz.css", "0.css", "cm.css"]
DIRS = ["site", "site/sub", "site/sub/deep", "site/other dir"]


@st.composite
def strategy(draw):
    knobs = {"shared_vars": False, "carry": draw(st.booleans())}
    n = draw(st.sampled_from([1, 2, 2, 3, 3, 4]))
    dirs = draw(st.lists(st.sampled_from(DIRS), min_size=1, max_size=3, unique=True))
    if "site" not in dirs and draw(st.booleans()):
        dirs[0] = "site"
    names = draw(st.lists(st.sampled_from(NAMES), min_size=n, max_size=n, unique=True))
    files = {}
    for i, nm in enumerate(names):
        d = dirs[i % len(dirs)]
        files[f"{d}/{nm}"] = draw(sheets.sheet(knobs=knobs, max_rules=4))["css"]
    cross = False
    rels = sorted(files)
    if len(rels) >= 2 and draw(st.booleans()):
        cross = True
        a, b = rels[0], rels[1]
        if draw(st.booleans()):
            a, b = b, a
        files[a] += "\n:root { --xf: #8a8a8a; --xb: #101010; }\n.r80 { color: var(--xf); }\n"
        files[b] += "\n.r90 { color: var(--xf, #777777); background-color: var(--xb, #ffffff); }\n.r91 { color: var(--xf); }\n.r92 { color: #999999; background-color: var(--xb); }\n"
    if len(rels) >= 2 and draw(st.integers(0, 9)) < 6:
        # a design palette: the same failing text/background pair appears in several files in different notations
        from vlib.gen import colors as gc

        t, b, _ = draw(gc.pair_near(thresholds=(4.5,), delta_lo=-0.4, delta_hi=-0.05, tight=0.2))
        spellings = [
            (f"#{t[0]:02x}{t[1]:02x}{t[2]:02x}", f"#{b[0]:02x}{b[1]:02x}{b[2]:02x}"),
            (f"rgb({t[0]}, {t[1]}, {t[2]})", f"rgb({b[0]}, {b[1]}, {b[2]})"),
            (draw(gc.spell(t, kinds=["hsl"], allow_translucent=False))[0], f"#{b[0]:02X}{b[1]:02X}{b[2]:02X}"),
            (f"#{t[0]:02X}{t[1]:02X}{t[2]:02X}", f"rgb({b[0]},{b[1]},{b[2]})"),
        ]
        order = list(draw(st.permutations(range(len(spellings)))))
        for i, rel in enumerate(rels):
            ts, bs = spellings[order[i % len(order)]]
            files[rel] += f"\n.r7{i} {{ color: {ts}; background-color: {bs}; }}\n"
        cross = True
    foreign = None
    if draw(st.integers(0, 2)) == 0:
        d = draw(st.sampled_from(dirs))
        foreign = (f"{d}/legacy_cm.css", ".old { color: #777777; }\n")
    all_dirs = sorted(set(dirs))
    placements = []
    for kind in FAULT_KINDS:
        for d in all_dirs:
            for nm in ("!first.css", "~last.css"):
                placements.append((kind, f"{d}/{nm}"))
    for kind in WRITE_FAULTS:
        for rel in sorted(files):
            placements.append((kind, rel))
    if len(all_dirs) > 2 or n > 3:
        idx = draw(st.lists(st.integers(0, len(placements) - 1), min_size=len(placements) // 2, max_size=len(placements) // 2, unique=True))
        placements = [placements[i] for i in sorted(idx)]
    settings = draw(sheets.cli_settings())
    if cross and draw(st.integers(0, 2)) == 0:
        # --default-bg given as a reference to a custom property that only SOME of the files define
        settings["default_bg"] = draw(st.sampled_from(["var(--xb, #fafafa)", "var(--xb, white)", "var(--xf, #ffffff)", "var(--xb)"]))
    return {"files": files, "foreign": foreign, "settings": settings, "placements": placements, "cross": cross}


def subchecks(tier):
    q = tier == "quick"
    return [Hyp("trees-with-enumerated-fault-placements", strategy, judge_counted, examples=64 if q else 2400)]
