"""C13 — translucent text is judged as it will be seen over its own background."""
from fractions import Fraction as F

from hypothesis import strategies as st

from vlib.gen import colors as gc
from vlib.oracles import css as ocss
from vlib.oracles import wcag as ow
from vlib.runner import Hyp, Violation, exc_bucket

ID = "C13"
LEVEL = "exploration"
RULE = (
    "Hypothesis: foreground colour x alpha (0, 1, adjacent floats, uniform, short decimals) x opaque background in any "
    "spelling, text spelt as rgba(), hsla(), RGBA tuple and RGBA list (and, labelled css4-alias, the CSS Color 4 aliases rgb(r, g, b, a) / "
    "rgb(r g b / a) that the library accepts); plus translucent backgrounds (composited over white); one case in three repeats the "
    "SAME text literal over a second background and then over the first again. "
    "Oracle: exact rational source-over blend of what O-CSS reads; |channel - exact| <= 1.5, alpha 1 -> the colour itself, "
    "alpha 0 -> the background; is_readable equals the O-WCAG label of (text.rgb, bg.rgb); make_readable equals the result "
    "for the opaque composite pair with the same settings. Non-trivial: 0 < alpha < 1, background != white and "
    "foreground != background; distinct by (text spelling, background)."
)
ASSUMPTIONS = ["O-CSS exact arithmetic; O-WCAG for the label", "tolerance 1.5 8-bit units as the property states (0.5 at alpha 1, 0 at alpha 0)"]


def selftest():
    ocss.selftest()
    ow.selftest()


def _exact_fg(t):
    """(r,g,b,alpha) exact for a translucent (or opaque) argument."""
    if isinstance(t, str):
        return ocss.parse_input(t)
    if len(t) == 4:
        return (F(t[0]), F(t[1]), F(t[2]), F(t[3]))
    return (F(t[0]), F(t[1]), F(t[2]), F(1))


def judge(case):
    if case.get("twin"):
        # a tuple that compares (and hashes) EQUAL to the text but is another notation - float channels, which the library reads
        # as unit fractions / HSLA - was parsed on the same background earlier in this process; whatever it denotes, the
        # text itself must still be read as the 8-bit RGBA tuple it is (a parse memo keyed on the bare tuple would mix them up)
        from cm_colors import ColorPair

        t = gc.dec(case["text"])
        tw = type(t)(float(v) for v in t[:3]) + type(t)(t[3:])
        try:
            ColorPair(tw, gc.dec(case["bg"]), case.get("large", False)).is_readable
        except Exception as e:
            raise Violation(exc_bucket(e), f"ColorPair({tw!r}, ...) raised {e!r}")
    info = _judge_one(case)
    if case.get("twin"):
        info.setdefault("cls", []).append("after-equal-float-twin")
    # the same text literal over ANOTHER background, then over the first again: each pair composites over its OWN background
    if case.get("bg2") is not None:
        _judge_one(dict(case, bg=case["bg2"], fix=False))
        _judge_one(dict(case, fix=False))
        info.setdefault("cls", []).append("second-background")
    return info


def _judge_one(case):
    from cm_colors import ColorPair

    t, b = gc.dec(case["text"]), gc.dec(case["bg"])
    large = case.get("large", False)
    try:
        pair = ColorPair(t, b, large)
    except Exception as e:
        raise Violation(exc_bucket(e), f"ColorPair({t!r}, {b!r}) raised {e!r}")
    if not pair.is_valid:
        raise Violation("rejects-valid-translucent", f"ColorPair({t!r}, {b!r}) is invalid: {pair.errors}")
    for nm, col in (("text", pair.text.rgb), ("background", pair.bg.rgb)):
        if not (isinstance(col, tuple) and len(col) == 3 and all(type(v) is int and 0 <= v <= 255 for v in col)):
            raise Violation("composite-not-three-8bit-ints", f"ColorPair({t!r}, {b!r}).{nm}.rgb = {col!r} is not a tuple of three ints in 0..255")
    # background: opaque -> as read by O-CSS; translucent -> exact blend over white within 1.5
    white = (255, 255, 255)
    lib_parsed_bg = isinstance(b, (tuple, list)) and any(not isinstance(v, int) or isinstance(v, bool) for v in b)
    if lib_parsed_bg:
        # unit-float / numeric-string tuples are library-specific spellings: what colour they denote is taken from the
        # library's own stand-alone parse; that the TEXT is composited over exactly that colour is what is judged
        from cm_colors import Color

        alone = Color(b)
        if not alone.is_valid or alone.rgb != pair.bg.rgb:
            raise Violation("bg-differs-from-standalone-parse", f"background {b!r} parses to {alone.rgb} alone but to {pair.bg.rgb} inside the pair")
        bq = (F(alone.rgb[0]), F(alone.rgb[1]), F(alone.rgb[2]), F(1))
    else:
        bq = _exact_fg(b)
    if lib_parsed_bg:
        pass
    elif bq[3] == 1:
        bg_opts = ocss.read_input_set(b) if isinstance(b, str) else {tuple(int(x) for x in bq[:3])}
        if pair.bg.rgb not in bg_opts:
            return {"skip": "bg-parsed-differently(C07)"}
    else:
        exact_bg = ocss.composite(bq, white)
        tol = F(0) if bq[3] == 0 else F(3, 2)
        for k in range(3):
            if not ocss.nearest_ok(pair.bg.rgb[k], exact_bg[k], tol):
                raise Violation("translucent-bg-not-over-white", f"background {b!r} became {pair.bg.rgb}; blend over white is {tuple(round(float(x), 3) for x in exact_bg)}")
    bg_rgb = pair.bg.rgb
    fq = _exact_fg(t)
    a = fq[3]
    exact = ocss.composite(fq, bg_rgb)
    if a == 1:
        tol = F(1, 2)
    elif a == 0:
        tol = F(0)
    else:
        tol = F(3, 2)
    got = pair.text.rgb
    for k in range(3):
        if not ocss.nearest_ok(got[k], exact[k], tol):
            which = "alpha-1-not-the-colour" if a == 1 else ("alpha-0-not-the-background" if a == 0 else "composite-wrong")
            raise Violation(which, f"text {t!r} over {b!r} (bg {bg_rgb}) was composited to {got}; exact source-over blend is {tuple(round(float(x), 3) for x in exact)} (alpha {float(a)})")
    # readability is judged on the composite
    want = ow.label(ow.ratio(got, bg_rgb), large)
    ind = any(ow.meets(got, bg_rgb, thr) is None for thr in ow.THRESHOLDS)
    if not ind and pair.is_readable != want:
        raise Violation("readability-not-on-composite", f"is_readable = {pair.is_readable!r} for {t!r} on {b!r}; composite {got} on {bg_rgb} is {want!r}")
    # fixes operate on the composite
    if case.get("fix"):
        mode, very = case["mode"], case["very"]
        try:
            res = pair.make_readable(mode=mode, very_readable=very)
            ref = ColorPair(tuple(got), tuple(bg_rgb), large).make_readable(mode=mode, very_readable=very)
        except Exception as e:
            raise Violation(exc_bucket(e), f"make_readable raised {e!r} for {t!r} on {b!r}")
        try:
            res_rgb = ocss.read_rgb_set(res[0]) if isinstance(res[0], str) else {tuple(res[0])}
        except ocss.CssReject as e:
            raise Violation("fix-result-not-css", f"make_readable returned {res!r}: {e}")
        if tuple(ref[0]) not in res_rgb or res[1] != ref[1]:
            raise Violation("fix-not-on-composite", f"make_readable({t!r} on {b!r}, mode={mode}, very_readable={very}) = {res!r}, but the opaque composite pair {got} on {bg_rgb} gives {ref!r}")
    nontrivial = 0 < a < 1 and bg_rgb != white and tuple(int(x) for x in fq[:3]) != bg_rgb if all(x.denominator == 1 for x in fq[:3]) else (0 < a < 1 and bg_rgb != white)
    acls = "a=0" if a == 0 else ("a=1" if a == 1 else ("a~0" if a < F(1, 1000) else ("a~1" if a > F(999, 1000) else "a-mid")))
    return {"nt": (str(case["text"]), str(case["bg"])) if nontrivial else None,
            "cls": [f"spell:{case['tkind']}", acls, "bg-translucent" if bq[3] != 1 else ("bg-lib-tuple" if lib_parsed_bg else "bg-opaque"), "fix" if case.get("fix") else "construct"],
            "sample": {"text": case["text"], "bg": case["bg"], "composite": list(got), "exact": [round(float(x), 3) for x in exact]}}


@st.composite
def strategy(draw):
    fg = draw(gc.rgb())
    bg = draw(st.one_of(gc.rgb(), gc.rgb(), st.sampled_from([(255, 255, 255), (0, 0, 0)])))
    targ, tkind, _fg, _a = draw(gc.translucent(fg, css4=True))
    if draw(st.integers(0, 9)) == 0:
        barg, bkind, _, _ = draw(gc.translucent(bg))
        bkind = "translucent:" + bkind
    elif draw(st.integers(0, 7)) == 0:
        # the library's other tuple spellings of an opaque colour: unit floats, numeric strings
        if draw(st.booleans()):
            barg, bkind = gc.enc(tuple(round(c / 255.0, draw(st.sampled_from([2, 3, 6]))) for c in bg)), "float-tuple"
        else:
            barg, bkind = gc.enc(tuple(str(c) for c in bg) if draw(st.booleans()) else [str(c) for c in bg]), "str-tuple"
    else:
        barg, bkind, _ = draw(gc.spell(bg, allow_translucent=False))
    case = {"text": targ, "bg": barg, "tkind": tkind, "bkind": bkind, "large": draw(st.booleans())}
    if draw(st.integers(0, 15)) == 0:
        # RGBA tuple whose channels are all 0 or 1 (next to black as 8-bit values, but primaries if mistaken for unit fractions),
        # half of the time after its float twin has been parsed
        a = draw(st.sampled_from([0.5, 0.25, 0.9, 1, 0, 0.001]))
        case["text"] = gc.enc(tuple(draw(st.lists(st.integers(0, 1), min_size=3, max_size=3))) + (a,))
        case["tkind"] = "rgba-tuple-01"
        case["twin"] = draw(st.booleans())
    if draw(st.integers(0, 2)) == 0:
        bg2 = draw(st.one_of(gc.rgb(), st.sampled_from([(255, 255, 255), (0, 0, 0)])))
        case["bg2"] = draw(gc.spell(bg2, allow_translucent=False))[0]
    if draw(st.integers(0, 11)) == 0:
        case["fix"] = True
        case["mode"] = draw(st.sampled_from([0, 1, 2]))
        case["very"] = draw(st.booleans())
    return case


def subchecks(tier):
    q = tier == "quick"
    return [Hyp("composite-and-judge", strategy, judge, examples=16000 if q else 600000)]
