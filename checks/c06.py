"""C06 — output keeps the input's format and reads back as exactly the judged colour."""
import re

from hypothesis import strategies as st

from vlib import optim
from vlib.gen import colors as gc
from vlib.oracles import css as ocss
from vlib.oracles import wcag as ow
from vlib.runner import Enum, Hyp, Violation, exc_bucket

ID = "C06"
LEVEL = "exploration"
RULE = (
    "6b read-back: format_color(rgb, fmt) for fmt in {hex, rgb, hsl, rgb_tuple} re-read by the library's parser and by the "
    "exact-rational CSS parser O-CSS, plus a grammar check of the string; thorough: ALL 16,777,216 colours x 4 formats "
    "(exhaustive); quick: every colour with a channel in {0,255} on a 4-step lattice of the other two, a 1:61 stride sample "
    "of the cube, all greys and the 148 keyword colours. 6a format mapping: Hypothesis pairs (near thresholds / uniform, "
    "so that unchanged / fixed / failed outcomes all occur) x every input spelling x modes, result shape checked against the "
    "documented table. Non-trivial: 6b every (colour, format); 6a results whose text differs from the input. "
    "Distinct by (rgb, fmt) resp. (text, bg, settings, spelling)."
)
ASSUMPTIONS = [
    "O-CSS exact-rational CSS Color 3 parser, cross-checked against tinycss2.color3; its float fast path is self-tested "
    "against the exact path and defers to it within 1e-6 of a rounding tie",
]

HEX_RE = re.compile(r"#(?:[0-9a-fA-F]{3}|[0-9a-fA-F]{6})\Z")


def shape_ok(out, want):
    """Is `out` a value of the documented output kind? Decided by CSS semantics (any letter case, any valid
    number spelling), not by one particular spelling: hex = '#' + 3/6 hex digits; rgb / hsl = an opaque CSS
    rgb() / hsl() function that O-CSS accepts."""
    if not isinstance(out, str):
        return False
    if want == "hex":
        return bool(HEX_RE.match(out))
    low = out.lower()
    if not low.startswith(want + "("):
        return False
    if (ocss._RGBI_RE if want == "rgb" else ocss._HSL_RE).match(out):
        return True  # the common spellings, decided without exact arithmetic
    try:
        return ocss.parse(out)[3] == 1
    except ocss.CssReject:
        return False


FORMATS = ("hex", "rgb", "hsl", "rgb_tuple")


def selftest():
    ocss.selftest()
    ocss.selftest_fast()
    ow.selftest()


def _parser():
    from cm_colors.core import color_parser

    return color_parser


def check_readback(rgb, fmt, cp):
    try:
        out = cp.format_color(rgb, fmt)
    except Exception as e:
        raise Violation(exc_bucket(e), f"format_color({rgb}, {fmt!r}) raised {e!r}")
    if fmt == "rgb_tuple":
        if not (isinstance(out, tuple) and len(out) == 3 and all(type(v) is int for v in out) and out == rgb):
            raise Violation("tuple-format", f"format_color({rgb}, 'rgb_tuple') = {out!r}")
    else:
        if not isinstance(out, str):
            raise Violation("string-format-type", f"format_color({rgb}, {fmt!r}) = {out!r}")
        if not shape_ok(out, fmt):
            raise Violation(f"not-valid-css:{fmt}", f"format_color({rgb}, {fmt!r}) = {out!r} is not a valid CSS {fmt} value")
        try:
            seen = ocss.read_fast(out)
        except ocss.CssReject as e:
            raise Violation(f"css-parser-rejects:{fmt}", f"format_color({rgb}, {fmt!r}) = {out!r}: a CSS parser rejects it ({e})")
        if seen != {rgb}:
            raise Violation(f"css-reads-other-colour:{fmt}", f"format_color({rgb}, {fmt!r}) = {out!r} is read by a CSS parser as {sorted(seen)}")
    try:
        back = cp.parse_color_to_rgb(out)
    except Exception as e:
        raise Violation(f"own-parser-rejects:{fmt}", f"format_color({rgb}, {fmt!r}) = {out!r} is rejected by the library's own parser: {e!r}")
    if tuple(back) != rgb:
        raise Violation(f"own-parser-reads-other-colour:{fmt}", f"format_color({rgb}, {fmt!r}) = {out!r} is read back by the library as {back}")
    return out


def readback_judge(case):
    rgb = tuple(case["rgb"])
    out = check_readback(rgb, case["fmt"], _parser())
    return {"nt": ("fmt", rgb, case["fmt"]), "cls": [f"readback:{case['fmt']}"], "sample": {"rgb": list(rgb), "fmt": case["fmt"], "out": out if isinstance(out, str) else list(out)}}


def _block_over(colours_for_shard, label, exhaustive_note=None):
    def block(shard, nshards):
        cp = _parser()
        viol = []
        seen_b = set()
        n = 0
        sample = None
        for rgb in colours_for_shard(shard, nshards):
            for fmt in FORMATS:
                try:
                    out = check_readback(rgb, fmt, cp)
                    if sample is None and fmt == "hsl":
                        sample = {"rgb": list(rgb), "fmt": fmt, "out": out}
                except Violation as v:
                    viol.append({"bucket": v.bucket, "msg": v.msg, "case": {"rgb": list(rgb), "fmt": fmt}})
                    if len(viol) > 20000:
                        viol = viol[:20000]
                n += 1
        return {"evals": n, "nt": n, "violations": viol, "classes": {label: n}, "samples": [sample] if sample else []}

    return block


def _all_colours(shard, nshards):
    for r in range(shard, 256, nshards):
        for g in range(256):
            for b in range(256):
                yield (r, g, b)


def _quick_colours(shard, nshards):
    k = 0
    seen = set()

    def emit(c):
        nonlocal k
        if c in seen:
            return None
        seen.add(c)
        k += 1
        return c if (k % nshards) == shard else None

    # boundary lattice: one channel 0 or 255, the others on a 4-step lattice (fully saturated colours live here)
    for pos in range(3):
        for ext in (0, 255):
            for a in list(range(0, 256, 4)) + [1, 2, 3, 253, 254, 255]:
                for b in list(range(0, 256, 4)) + [1, 2, 3, 253, 254, 255]:
                    c = [a, b]
                    c.insert(pos, ext)
                    x = emit(tuple(c))
                    if x:
                        yield x
    for v in range(256):
        x = emit((v, v, v))
        if x:
            yield x
    for name in gc.KW_LIST:
        x = emit(ocss.KEYWORD_RGB[name])
        if x:
            yield x
    # stride sample of the cube
    for i in range(0, 1 << 24, 61):
        x = emit(((i >> 16) & 255, (i >> 8) & 255, i & 255))
        if x:
            yield x


# ---- 6a format mapping -------------------------------------------------------------------------------------

HEX_KINDS = {"hex6", "HEX6", "hexmix", "nohash", "hex3", "hex3nohash"}
RGB_KINDS = {"rgb", "rgbws", "rgbpct"}
TUPLE_KINDS = {"tuple", "list", "unit-float-tuple", "hsl-float-tuple"}


def expected_shape(tkind):
    if tkind in HEX_KINDS:
        return "hex"
    if tkind in RGB_KINDS:
        return "rgb"
    if tkind == "hsl":
        return "hsl"
    if tkind in TUPLE_KINDS:
        return "tuple"
    return "hex"  # named, rgba()/hsla() strings, RGBA tuples


def mapping_judge(case):
    pair, t, b = optim.make_pair(case)
    if not pair.is_valid:
        return {"skip": "library-rejects-spelling"}
    minimum = optim.minimum_for(case)
    result, success = optim.call_make_readable(pair, case)
    want = expected_shape(case["tkind"])
    ok = False
    if want == "tuple":
        ok = isinstance(result, tuple) and len(result) == 3 and all(type(v) is int and 0 <= v <= 255 for v in result)
    else:
        ok = shape_ok(result, want)
    orig_passes = ow.ratio(pair.text.rgb, pair.bg.rgb) >= minimum
    outcome = "unchanged" if orig_passes else ("fixed" if success else "failed")
    if not ok:
        raise Violation(f"wrong-output-format:{want}:{outcome}", f"input spelling {case['tkind']} ({t!r}) should come back as {want}, got {result!r} (outcome {outcome}); {optim.describe(case)}")
    # the value must be readable by both parsers as one and the same colour
    rgbs = optim.readback_set(result)
    try:
        own = _parser().parse_color_to_rgb(result)
    except Exception as e:
        raise Violation("own-parser-rejects-result", f"make_readable returned {result!r} which the library's own parser rejects: {e!r}; {optim.describe(case)}")
    if tuple(own) not in rgbs:
        raise Violation("parsers-disagree-on-result", f"make_readable returned {result!r}: library reads {own}, CSS reads {sorted(rgbs)}; {optim.describe(case)}")
    differs = not (isinstance(t, str) and isinstance(result, str) and t == result) and not (isinstance(t, tuple) and t == result)
    return {"nt": (pair.text.rgb, pair.bg.rgb, case["large"], case["very"], case["mode"], case["tkind"]) if differs else None,
            "cls": [f"map:{case['tkind']}->{want}:{outcome}"],
            "sample": {"text": case["text"], "bg": case["bg"], "mode": case["mode"], "large": case["large"], "very": case["very"],
                       "result": result if isinstance(result, str) else list(result), "success": success, "outcome": outcome}}


@st.composite
def mapping_strategy(draw):
    pairs = st.one_of(optim.near_pairs(delta_lo=-0.3, delta_hi=0.2), optim.near_pairs(delta_lo=-0.3, delta_hi=0.2), optim.uniform_pairs())
    case = draw(optim.spelled_pair_case(pairs, translucent_share=12))
    if draw(st.integers(0, 14)) == 0:
        # the library's float tuple spellings: unit floats (r/255, ...) and (hue, saturation, lightness) with s, l in [0,1]
        from vlib.oracles import css as _ocss

        rgb = draw(gc.rgb())
        if draw(st.booleans()):
            seq = tuple(round(c / 255.0, 3) for c in rgb)
            kind = "unit-float-tuple"
        else:
            h, sat, lig = _ocss.rgb_to_hsl_exact(rgb)
            seq = (max(2, int(round(float(h)))), round(float(sat), 3) + 0.0, round(float(lig), 3) + 0.0)
            kind = "hsl-float-tuple"
        case["text"] = gc.enc(seq if draw(st.booleans()) else list(seq))
        case["tkind"] = kind
    return case


def subchecks(tier):
    q = tier == "quick"
    subs = []
    if q:
        subs.append(Enum("6b-readback-boundary+sample", block=_block_over(_quick_colours, "readback-quick"), judge=readback_judge))
    else:
        subs.append(Enum("6b-readback-all-2^24-x-4-formats", block=_block_over(_all_colours, "readback-all"), judge=readback_judge, exhaustive=True))
    subs.append(Hyp("6a-format-mapping", mapping_strategy, mapping_judge, examples=6400 if q else 150000))
    from vlib.envleg import api_env_judge, env_items

    # formats and values must not depend on the locale or on the warning filters (child interpreters)
    subs.append(Enum("environment-child-interpreters", judge=api_env_judge, items=env_items, shards=1))
    return subs
