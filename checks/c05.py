"""C05 — luminance, contrast ratio and readability labels are exactly WCAG 2."""
import math

from hypothesis import strategies as st

from vlib.gen import colors as gc
from vlib.oracles import css as ocss
from vlib.oracles import wcag as ow
from vlib.runner import Enum, HarnessError, Hyp, Violation, exc_bucket

ID = "C05"
LEVEL = "exploration"
RULE = (
    "luminance: all 2^24 colours enumerated against O-WCAG (exhaustive in both tiers); ratio: all 65,536 grey x grey "
    "pairs, colours against black and white (stride sample in quick, all 2^24 in thorough) and Hypothesis pairs "
    "(uniform and constructed near 3.0/4.5/7.0); labels: floats at, 1 and 2 ulp around each threshold plus a grid and "
    "random floats x large flag, through get_contrast_level and (with the ratio function stubbed in the harness "
    "process) get_wcag_level -> ColorPair.is_readable -> bulk status. Every case is meaningful; distinct = distinct "
    "colour / pair / (ratio, large) evaluated."
)
ASSUMPTIONS = [
    "O-WCAG (vlib/oracles/wcag.py) validated against the standard boundary greys and black/white = 21",
    "0.03928 vs 0.04045 linearisation knee is unobservable on 8-bit input and is not distinguished",
    "float tolerance: luminance 1e-12 absolute, ratio 1e-9 relative",
]


def selftest():
    ow.selftest()
    ocss.selftest()


def _lib():
    from cm_colors.core import contrast

    return contrast


# ---- luminance: exhaustive -------------------------------------------------------------------------


def lum_block(shard, nshards):
    lumf = _lib().calculate_relative_luminance
    olum = ow.lum
    viol = []
    n = 0
    for r in range(shard, 256, nshards):
        for g in range(256):
            for b in range(256):
                c = (r, g, b)
                try:
                    v = lumf(c)
                except Exception as e:
                    viol.append({"bucket": exc_bucket(e), "msg": f"luminance{c} raised {e!r}", "case": {"rgb": list(c)}})
                    continue
                if not (abs(v - olum(c)) <= 1e-12) or not isinstance(v, float):
                    if len(viol) < 5:
                        viol.append({"bucket": "lum-mismatch", "msg": f"luminance{c} = {v!r}, WCAG = {olum(c)!r}", "case": {"rgb": list(c)}})
                n += 1
    return {"evals": n, "nt": n, "violations": viol, "samples": [{"rgb": [shard, 7, 200], "lum": ow.lum((shard, 7, 200))}], "classes": {"luminance": n}}


def lum_judge(case):
    c = tuple(case["rgb"])
    v = _lib().calculate_relative_luminance(c)
    if not (abs(v - ow.lum(c)) <= 1e-12):
        raise Violation("lum-mismatch", f"luminance{c} = {v!r}, WCAG = {ow.lum(c)!r}")


# ---- ratio ---------------------------------------------------------------------------------------------


def _ratio_case(a, b):
    crf = _lib().calculate_contrast_ratio
    try:
        r1 = crf(a, b)
        r2 = crf(b, a)
    except Exception as e:
        raise Violation(exc_bucket(e), f"contrast ratio {a} {b} raised {e!r}")
    want = ow.ratio(a, b)
    if not (abs(r1 - want) <= 1e-9 * want):
        raise Violation("ratio-mismatch", f"ratio{a}{b} = {r1!r}, WCAG = {want!r}")
    if r1 != r2:
        raise Violation("ratio-asymmetric", f"ratio{a}{b} = {r1!r} but swapped = {r2!r}")
    if not (1.0 <= r1 <= 21.0 + 1e-12):
        raise Violation("ratio-range", f"ratio{a}{b} = {r1!r} outside [1,21]")
    if a == b and r1 != 1.0:
        raise Violation("ratio-equal", f"ratio of equal colours {a} = {r1!r}")
    if r1 >= 21.0 - 1e-9 and {a, b} != {(0, 0, 0), (255, 255, 255)}:
        raise Violation("ratio-21", f"ratio 21 for {a} {b}")
    if {a, b} == {(0, 0, 0), (255, 255, 255)} and abs(r1 - 21.0) > 1e-12:
        raise Violation("ratio-21", f"black/white = {r1!r}")


def grey_block(shard, nshards):
    viol = []
    n = 0
    for x in range(shard, 256, nshards):
        for y in range(256):
            try:
                _ratio_case((x, x, x), (y, y, y))
            except Violation as v:
                viol.append({"bucket": v.bucket, "msg": v.msg, "case": {"a": [x] * 3, "b": [y] * 3}})
            n += 1
    return {"evals": n, "nt": n, "violations": viol, "classes": {"grey-x-grey": n}, "samples": [{"a": [shard] * 3, "b": [200] * 3}]}


def bw_block_factory(stride):
    def bw_block(shard, nshards):
        viol = []
        n = 0
        K, W = (0, 0, 0), (255, 255, 255)
        idx = 0
        for r in range(shard, 256, nshards):
            for g in range(256):
                for b in range(256):
                    idx += 1
                    if stride > 1 and (idx % stride):
                        continue
                    c = (r, g, b)
                    for o in (K, W):
                        try:
                            _ratio_case(c, o)
                        except Violation as v:
                            if len(viol) < 5:
                                viol.append({"bucket": v.bucket, "msg": v.msg, "case": {"a": list(c), "b": list(o)}})
                        n += 1
        return {"evals": n, "nt": n, "violations": viol, "classes": {"vs-black-white": n}, "samples": [{"a": [shard, 3, 9], "b": [0, 0, 0]}]}

    return bw_block


def pair_judge(case):
    a, b = tuple(case["a"]), tuple(case["b"])
    _ratio_case(a, b)
    # labels on the real pair, all observation points
    from cm_colors import ColorPair, make_readable_bulk
    from cm_colors.core.contrast import get_wcag_level

    r = ow.ratio(a, b)
    cls = []
    for large in (False, True):
        verdicts = [ow.meets(a, b, t) for t in ((3.0, 4.5) if large else (4.5, 7.0))]
        if None in verdicts:
            return {"skip": "indeterminate-threshold"}
        want_level = "AAA" if verdicts[1] else ("AA" if verdicts[0] else "FAIL")
        got = get_wcag_level(a, b, large)
        if got != want_level:
            raise Violation("level-real-pair", f"get_wcag_level({a},{b},large={large}) = {got!r}, WCAG says {want_level!r} (ratio {r})")
        want_label = {"AAA": "Very Readable", "AA": "Readable", "FAIL": "Not Readable"}[want_level]
        got_label = ColorPair(a, b, large).is_readable
        if got_label != want_label:
            raise Violation("label-real-pair", f"ColorPair({a},{b},large={large}).is_readable = {got_label!r}, expected {want_label!r} (ratio {r})")
        cls.append(f"label:{want_level}:{'large' if large else 'normal'}")
    if case.get("bulk"):
        # the bulk status is the label of the colour the bulk call RETURNS (also when the fix fell short of very_readable)
        large = case["bulk"]["large"]
        try:
            out = make_readable_bulk([(a, b, large)], mode=case["bulk"]["mode"], very_readable=True)
        except Exception as e:
            raise Violation(exc_bucket(e), f"make_readable_bulk([({a}, {b}, {large})], very_readable=True) raised {e!r}")
        col, status = out[0]
        if isinstance(col, tuple) and len(col) == 3:
            vs = [ow.meets(tuple(col), b, t) for t in ((3.0, 4.5) if large else (4.5, 7.0))]
            if None not in vs:
                want = "very readable" if vs[1] else ("readable" if vs[0] else "not readable")
                if status != want:
                    raise Violation("bulk-status-of-returned-colour", f"make_readable_bulk([({a}, {b}, {large})], mode={case['bulk']['mode']}, very_readable=True) returned {col} labelled {status!r}; WCAG label of that colour is {want!r} (ratio {ow.ratio(tuple(col), b):.4f})")
                cls.append("bulk-very-readable:" + want.replace(" ", "-"))
    near = min(abs(r / t - 1) for t in ow.THRESHOLDS)
    return {"nt": ("pair", a, b), "cls": cls + ["near-threshold" if near < 0.03 else "far"], "sample": {"a": list(a), "b": list(b), "ratio": r}}


def pair_strategy():
    near = gc.pair_near().map(lambda t: {"a": list(t[0]), "b": list(t[1])})
    uni = st.tuples(gc.rgb(), gc.rgb()).map(lambda t: {"a": list(t[0]), "b": list(t[1])})
    base = st.one_of(near, near, uni)
    bulk = st.one_of(st.none(), st.fixed_dictionaries({"large": st.booleans(), "mode": st.sampled_from([0, 1, 2])}))
    return st.tuples(base, st.integers(0, 19), bulk).map(lambda t: dict(t[0], **({"bulk": t[2]} if (t[1] == 0 and t[2]) else {})))


# ---- labels at exact ratios -----------------------------------------------------------------------------

_WANT_LABEL = {"AAA": "Very Readable", "AA": "Readable", "FAIL": "Not Readable"}


def label_judge(case):
    r = float.fromhex(case["ratio"])
    large = case["large"]
    contrast = _lib()
    want = ow.level(r, bool(large))
    try:
        got = contrast.get_contrast_level(r, large)
    except Exception as e:
        raise Violation(exc_bucket(e), f"get_contrast_level({r!r},{large}) raised {e!r}")
    if got != want:
        raise Violation("level-fn", f"get_contrast_level({r!r}, large={large}) = {got!r}, expected {want!r}")
    # chain at this exact ratio: stub the ratio function looked up by get_wcag_level
    skipped = None
    if hasattr(contrast, "calculate_contrast_ratio") and hasattr(contrast, "get_wcag_level"):
        from cm_colors import ColorPair, make_readable_bulk

        orig = contrast.calculate_contrast_ratio
        contrast.calculate_contrast_ratio = lambda a, b, _r=r: _r
        try:
            t, b = tuple(case["t"]), tuple(case["b"])
            lv = contrast.get_wcag_level(t, b, large)
            if lv != want:
                raise Violation("level-chain", f"get_wcag_level at ratio {r!r} large={large} = {lv!r}, expected {want!r}")
            lab = ColorPair(t, b, large).is_readable
            if lab != _WANT_LABEL[want]:
                raise Violation("label-chain", f"is_readable at ratio {r!r} large={large} = {lab!r}, expected {_WANT_LABEL[want]!r}")
            # bulk status is recomputed from the returned colour through the same label chain
            # one list mixing this text size, the other one and a 2-element entry (= normal size): each status is the label
            # of the stubbed ratio AT THAT ENTRY'S size
            out = make_readable_bulk([(t, b, large), (t, b, not large), (t, b)])
            wants = [_WANT_LABEL[ow.level(r, bool(lg))].lower() for lg in (large, not large, False)]
            if len(out) != 3 or [o[1] for o in out] != wants:
                raise Violation("label-bulk", f"bulk statuses at ratio {r!r} for sizes (large={large}, large={not large}, 2-element entry) = {out!r}, expected {wants!r}")
        finally:
            contrast.calculate_contrast_ratio = orig
    else:
        skipped = "no-stub-point"
    ulp_cls = "at-threshold" if r in (3.0, 4.5, 7.0) else ("1-2ulp" if any(abs(r - t) < 1e-14 * t * 4 for t in ow.THRESHOLDS) else "other")
    info = {"nt": ("label", case["ratio"], large), "cls": [f"label-case:{ulp_cls}"]}
    if skipped:
        info["skip"] = skipped
    return info


def _label_cases(tier):
    vals = []
    for t in (3.0, 4.5, 7.0):
        x = t
        vals.append(x)
        up = dn = x
        for _ in range(2):
            up = math.nextafter(up, math.inf)
            dn = math.nextafter(dn, -math.inf)
            vals += [up, dn]
        vals += [t - 1e-9, t + 1e-9, t - 0.01, t + 0.01]
    vals += [1.0, 21.0, 1.0000001, 20.999999, 2.999, 4.499, 6.999]
    steps = 400 if tier == "quick" else 4000
    vals += [1.0 + 20.0 * i / steps for i in range(steps + 1)]
    pairs = [((0, 0, 0), (255, 255, 255)), ((255, 255, 255), (0, 0, 0)), ((0, 0, 0), (255, 255, 0)), ((255, 255, 255), (0, 0, 128))]
    cases = []
    for i, v in enumerate(vals):
        for large in (False, True):
            t, b = pairs[i % len(pairs)]
            cases.append({"ratio": float(v).hex(), "large": large, "t": list(t), "b": list(b)})
    # the flag is used for its truth value: 1 / 0 must behave like True / False (thresholds +- 1 ulp only)
    for t_ in (3.0, 4.5, 7.0):
        for v in (t_, math.nextafter(t_, -math.inf), math.nextafter(t_, math.inf)):
            for large in (1, 0):
                cases.append({"ratio": float(v).hex(), "large": large, "t": [0, 0, 0], "b": [255, 255, 255]})
    return cases


def label_items_factory(tier):
    def items(shard, nshards):
        cases = _label_cases(tier)
        return cases[shard::nshards]

    return items


def label_strategy():
    thr = st.sampled_from([3.0, 4.5, 7.0])
    near = st.tuples(thr, st.integers(-50, 50)).map(lambda t: _step(t[0], t[1]))
    anyf = st.floats(1.0, 21.0, allow_nan=False)
    pair = st.sampled_from([((0, 0, 0), (255, 255, 255)), ((255, 255, 255), (0, 0, 0)), ((0, 0, 0), (255, 255, 0))])
    return st.tuples(st.one_of(near, anyf), st.booleans(), pair).map(
        lambda t: {"ratio": float(t[0]).hex(), "large": t[1], "t": list(t[2][0]), "b": list(t[2][1])}
    )


def _step(x, k):
    d = math.inf if k > 0 else -math.inf
    for _ in range(abs(k)):
        x = math.nextafter(x, d)
    return x


def subchecks(tier):
    q = tier == "quick"
    return [
        Enum("luminance-all-2^24", block=lum_block, judge=lum_judge, exhaustive=True),
        Enum("ratio-grey-x-grey", block=grey_block, judge=lambda c: _ratio_case(tuple(c["a"]), tuple(c["b"])), exhaustive=True),
        Enum("ratio-vs-black-white", block=bw_block_factory(16 if q else 1), judge=lambda c: _ratio_case(tuple(c["a"]), tuple(c["b"])), exhaustive=not q),
        Hyp("ratio-and-labels-pairs", pair_strategy, pair_judge, examples=20000 if q else 400000),
        Enum("labels-threshold-ulps", judge=label_judge, items=label_items_factory(tier)),
        Hyp("labels-random-floats", label_strategy, label_judge, examples=3000 if q else 60000),
    ]
