"""C04 — change is bounded: strict mode within dE 5.0, each search step within its tolerance."""
import math

from hypothesis import strategies as st

from vlib import optim
from vlib.gen import colors as gc
from vlib.oracles import cie
from vlib.oracles import css as ocss
from vlib.oracles import wcag as ow
from vlib.runner import Enum, Hyp, Violation, child_check_block, exc_bucket

ID = "C04"
LEVEL = "exploration"
RULE = (
    "4a strict cap: Hypothesis pairs weighted towards unfixable ones (text close to the background, mid-tone backgrounds, "
    "10-60% below the minimum) in every spelling x large x very_readable in mode 0; O-DE00(original, returned) <= 5.0. "
    "4b routines: direct calls of binary_search_lightness / gradient_descent_oklch / generate_accessible_color with "
    "arbitrary tolerance in [0.05,40] or schedules of 0-6 unsorted entries, targets in [1.1,21]. 4c step chain: every call "
    "of the multi-phase search during mode 1/2 runs recorded by attribute replacement. Non-trivial: 4a result differs from "
    "the input; 4b routine returned a moved colour; 4c runs with >= 2 recorded steps. Distinct by argument tuple. A quarter-size slice of "
    "both campaigns is repeated in a child process under `python -O` (asserts compiled out)."
)
ASSUMPTIONS = [
    "O-DE00 validated on the 34 Sharma pairs; +0.01 slack between the library's and the oracle's dE",
    "4c is skipped (and reported) if optimisation.generate_accessible_color is absent",
]
SLACK = 0.01


def selftest():
    cie.selftest()
    ow.selftest()
    ocss.selftest()


def _is_rgb(t):
    return isinstance(t, tuple) and len(t) == 3 and all(isinstance(v, int) and not isinstance(v, bool) and 0 <= v <= 255 for v in t)


# ---- 4a ---------------------------------------------------------------------------------------------------


def judge_strict(case):
    case = dict(case, mode=0)
    pair, t, b = optim.make_pair(case)
    if not pair.is_valid:
        return {"skip": "library-rejects-spelling"}
    orig = optim.true_original(pair, t, pair.bg.rgb)
    result, success = optim.call_make_readable(pair, case)
    rgbs = optim.readback_set(result)
    worst = max(cie.de00(orig, c) for c in rgbs)
    if worst > 5.0 + SLACK:
        raise Violation("strict-cap-exceeded", f"mode 0 returned {result!r}: CIEDE2000 {worst:.4f} from the original {orig} (cap 5.0); {optim.describe(case)}")
    moved = orig not in rgbs
    return {"nt": (orig, pair.bg.rgb, case["large"], case["very"], case.get("tkind")) if moved else None,
            "cls": [f"strict:{'moved' if moved else 'unmoved'}:{'success' if success else 'fail'}", f"dE-bin:{min(5, int(worst))}"],
            "sample": {"text": case["text"], "bg": case["bg"], "large": case["large"], "very": case["very"],
                       "result": result if isinstance(result, str) else list(result), "success": success, "dE": round(worst, 4)}}


@st.composite
def strict_strategy(draw):
    large, very, _ = draw(gc.settings3())
    minimum = ow.minimum(large, very)
    k = draw(st.integers(0, 9))
    if k < 6:
        text, bg, meta = draw(gc.pair_near(thresholds=(minimum,), delta_lo=-0.65, delta_hi=-0.05, tight=0.65))
    elif k < 8:
        # text very close to the background: nothing within 5.0 can fix it, the last tolerance is used
        bg = draw(gc.rgb())
        d = draw(st.tuples(st.integers(-25, 25), st.integers(-25, 25), st.integers(-25, 25)))
        text = tuple(min(255, max(0, bg[i] + d[i])) for i in range(3))
        meta = {"band": gc.band(bg)}
    else:
        text, bg, meta = draw(optim.uniform_pairs())
    if draw(st.integers(0, 9)) == 0:
        targ, kind = draw(gc.translucent_near(text, bg, css4=True))
        tkind = "translucent:" + kind
    else:
        targ, tkind, _ = draw(gc.spell(text))
    barg, bkind, _ = draw(gc.spell(bg, allow_translucent=False))
    case = {"text": targ, "bg": barg, "large": large, "very": very, "mode": 0, "tkind": tkind, "bkind": bkind, "meta": meta}
    w = draw(optim.warm())
    if w:
        case["warm"] = w
    return case


# ---- 4b ---------------------------------------------------------------------------------------------------


def judge_routine(case):
    from cm_colors.core import optimisation as opt

    name = case["fn"]
    fn = getattr(opt, name, None)
    if fn is None:
        return {"skip": f"routine-absent:{name}"}
    text, bg = tuple(case["text"]), tuple(case["bg"])
    target, large = case["target"], case["large"]
    try:
        if name == "generate_accessible_color":
            sched = case["schedule"]
            res = fn(text, bg, large=large, target_contrast=target, min_contrast=case["min"], delta_e_sequence=None if sched is None else list(sched))
            bound = 5.0 if sched is None else (max(sched) if sched else 0.0)
        else:
            res = fn(text, bg, case["tol"], target, large)
            bound = case["tol"]
    except Exception as e:
        raise Violation(exc_bucket(e), f"{name} raised {e!r} on {case}")
    if res is None:
        if name == "generate_accessible_color":
            raise Violation("routine-returned-none", f"generate_accessible_color returned None on {case}")
        return {"cls": [f"{name}:none"]}
    if not _is_rgb(tuple(res)) or not isinstance(res, tuple):
        raise Violation("routine-invalid-colour", f"{name} returned {res!r} (not a valid 8-bit triple) on {case}")
    if res == text:
        return {"cls": [f"{name}:input"]}
    d = cie.de00(text, res)
    if d > bound + SLACK:
        raise Violation(f"routine-exceeds-tolerance:{name}", f"{name} returned {res} at CIEDE2000 {d:.4f} from {text}, largest tolerance given {bound}; args {case}")
    return {"nt": (name, text, bg, case.get("tol"), tuple(case.get("schedule") or ()), target), "cls": [f"{name}:moved"],
            "sample": dict(case, result=list(res), dE=round(d, 4))}


@st.composite
def routine_strategy(draw):
    k = draw(st.integers(0, 3))
    if k == 0:
        text, bg, _ = draw(optim.uniform_pairs())
    else:
        text, bg, _ = draw(gc.pair_near(delta_lo=-0.6, delta_hi=0.1, tight=0.3))
    fn = draw(st.sampled_from(["binary_search_lightness", "binary_search_lightness", "gradient_descent_oklch", "generate_accessible_color"]))
    tol_s = st.one_of(st.floats(0.05, 6.0, allow_nan=False), st.floats(0.05, 40.0, allow_nan=False), st.sampled_from([0.8, 1.0, 2.0, 2.5, 3.0, 5.0, 15.0]))
    target = draw(st.one_of(st.sampled_from([3.0, 4.5, 7.0]), st.floats(1.1, 21.0, allow_nan=False)))
    case = {"fn": fn, "text": list(text), "bg": list(bg), "target": target, "large": draw(st.booleans())}
    if fn == "generate_accessible_color":
        sched = draw(st.one_of(st.none(), st.lists(tol_s, min_size=0, max_size=6)))
        case["schedule"] = sched
        case["min"] = draw(st.one_of(st.sampled_from([3.0, 4.5, 7.0]), st.floats(1.1, 21.0, allow_nan=False)))
    else:
        case["tol"] = draw(tol_s)
    return case


# ---- 4c ---------------------------------------------------------------------------------------------------


def judge_chain(case):
    from cm_colors.core import optimisation as opt

    if not hasattr(opt, "generate_accessible_color"):
        return {"skip": "no-multi-phase-search-attribute"}
    pair, t, b = optim.make_pair(case)
    if not pair.is_valid:
        return {"skip": "library-rejects-spelling"}
    calls = []
    orig_fn = opt.generate_accessible_color

    def rec(text_rgb, bg_rgb, *a, **k):
        out = orig_fn(text_rgb, bg_rgb, *a, **k)
        sched = k.get("delta_e_sequence", a[3] if len(a) > 3 else None)
        calls.append((tuple(text_rgb), None if sched is None else list(sched), out))
        return out

    opt.generate_accessible_color = rec
    try:
        result, success = optim.call_make_readable(pair, case)
    finally:
        opt.generate_accessible_color = orig_fn
    orig = pair.text.rgb
    reachable = {orig}
    for i, (inp, sched, out) in enumerate(calls):
        if inp not in reachable:
            raise Violation("chain-step-from-unknown-colour", f"step {i} of mode {case['mode']} started from {inp}, which is neither the original {orig} nor an earlier step's output; {optim.describe(case)}")
        if not _is_rgb(tuple(out)):
            raise Violation("chain-step-invalid-colour", f"step {i} returned {out!r}")
        bound = 5.0 if sched is None else (max(sched) if sched else 0.0)
        d = cie.de00(inp, tuple(out))
        if d > bound + SLACK:
            raise Violation("chain-step-exceeds-tolerance", f"step {i} of mode {case['mode']} moved {inp} -> {out}: CIEDE2000 {d:.4f} > largest tolerance {bound}; {optim.describe(case)}")
        reachable.add(tuple(out))
    rgbs = optim.readback_set(result)
    if not (rgbs & reachable):
        raise Violation("chain-result-not-a-step-output", f"mode {case['mode']} returned {result!r} which is neither the original nor any recorded step output {sorted(reachable)[:6]}; {optim.describe(case)}")
    n = len(calls)
    return {"nt": (orig, pair.bg.rgb, case["large"], case["very"], case["mode"]) if n >= 2 else None,
            "cls": [f"chain:mode{case['mode']}:steps{min(n, 6)}"],
            "sample": {"text": case["text"], "bg": case["bg"], "mode": case["mode"], "large": case["large"], "very": case["very"],
                       "steps": [[list(c[0]), list(c[2])] for c in calls[:6]], "result": result if isinstance(result, str) else list(result)}}


@st.composite
def modes_strategy(draw):
    c = draw(strict_strategy())
    c["mode"] = draw(st.sampled_from([0, 0, 0, 1, 2]))
    return c


def judge_modes(case):
    """4a and 4c share one campaign so that every worker process sees all three modes interleaved
    (a bound that only breaks after another mode has run in the same process is then reachable)."""
    if case["mode"] == 0:
        return judge_strict(case)
    return judge_chain(case)


def subchecks(tier):
    q = tier == "quick"
    return [
        Hyp("4a+4c-strict-cap-and-step-chain", modes_strategy, judge_modes, examples=6400 if q else 160000),
        Hyp("4b-search-routines", routine_strategy, judge_routine, examples=8000 if q else 300000),
        # the same bounds must hold when the interpreter runs with -O (asserts compiled out): a slice of the two campaigns in a child process
        Enum("4a+4c-under-python-O", block=child_check_block("C04", "4a+4c-strict-cap-and-step-chain", ["--python-O"], 0.25 if q else 1.0, "python-O"), judge=judge_modes),
        Enum("4b-under-python-O", block=child_check_block("C04", "4b-search-routines", ["--python-O"], 0.25 if q else 1.0, "python-O"), judge=judge_routine),
    ]
