"""C09 — CLI: input files are never touched and the rest of the stylesheet is preserved."""
import os

from hypothesis import strategies as st

from checks import c08
from vlib import cli
from vlib.gen import sheets
from vlib.oracles import htmlo
from vlib.oracles import sheet as osh
from vlib.runner import HarnessError, Hyp, Violation

ID = "C09"
LEVEL = "exploration"
RULE = (
    "Hypothesis G-sheet with all carry-through material switched on (@charset/@import/@namespace/@font-face/@keyframes/@page/"
    "@layer/@counter-style/unknown at-rules with and without blocks, strings and url() containing braces, semicolons and comment "
    "markers, escapes, !important spellings, vendor hacks, empty rules, comments between rules / declarations / inside values, "
    "non-ASCII) x all settings; invoked on a single file, on a directory holding one or two sheets (one in a sub-directory), and on "
    "'.'; the whole run is watched by a before/after tree snapshot (bytes, mode, mtime) and an audit hook (every open-for-write, "
    "mkdir, rename, remove). Oracle: inputs byte-identical; created paths exactly the sibling _cm.css files plus the report iff "
    "something was adjusted; output parses without error; O-SHEET normal form of output == normal form of input after masking, "
    "in both, the value of the last color declaration of each reported-adjusted rule and of the custom property it references. "
    "One fixed non-ASCII sheet is additionally run in two CHILD interpreters (UTF-8 locale vs LC_ALL=C with UTF-8 mode and locale "
    "coercion off): same files, same bytes, same report. "
    "Non-trivial: sheets with >= 3 kinds of carry-through construct and >= 1 adjusted rule; distinct by (files, settings, target)."
)
ASSUMPTIONS = [
    "tinycss2's tokenizer decides that two texts mean the same (a tokenizer bug mapping two different texts to one token stream would be invisible)",
    "empty comments /**/ are ignored (tinycss2's serializer inserts them as token separators); non-empty comments are compared verbatim",
]

CARRY_KINDS = {
    "@import": "@import", "@charset": "@charset", "@font-face": "@font-face", "keyframes": "keyframes", "@page": "@page", "@namespace": "@namespace",
    "url(": "url(", "\\": "escape", "important": "!important", "/*": "comment", "_height": "hack", "-webkit-": "vendor", "@unknown": "unknown-at",
    "@layer": "@layer", "@counter-style": "@counter-style", ".empty": "empty-rule", "progid": "progid",
}


def selftest():
    osh.selftest()
    htmlo.selftest()


def _mask(nf, adjusted_ids, var_names):
    """Replace, in a normal form, the value of the last `color` declaration of each adjusted rule and of the named custom
    properties (in top-level :root/html rules) by a wildcard."""
    rootn = {}

    def walk(nodes, top):
        out = []
        for n in nodes:
            if n[0] == "rule":
                kind = osh.selector_kind(n) if top else None
                if kind:
                    k = rootn.get(kind, 0)
                    rootn[kind] = k + 1
                    rid = ("root", kind, k)
                else:
                    m = osh.marker_of(n)
                    rid = ("m", m) if m is not None else None
                decls = list(n[2])
                if rid in adjusted_ids:
                    last = None
                    for i, d in enumerate(decls):
                        if d[0] == "decl" and d[1] == "color":
                            last = i
                    if last is not None:
                        d = decls[last]
                        decls[last] = ("decl", d[1], ("ADJUSTED",), d[3])
                if kind:
                    decls = [("decl", d[1], ("ADJUSTED-VAR",), d[3]) if (d[0] == "decl" and d[1] in var_names) else d for d in decls]
                out.append(("rule", n[1], decls))
            elif n[0] == "at" and n[3] and n[3][0] == "rules":
                out.append(("at", n[1], n[2], ("rules", walk(n[3][1], False))))
            else:
                out.append(n)
        return out

    return walk(nf, True)


def _first_diff(a, b, path="sheet"):
    if type(a) is not type(b) or (isinstance(a, (list, tuple)) and len(a) != len(b)):
        return f"{path}: {str(a)[:300]} != {str(b)[:300]}"
    if isinstance(a, (list, tuple)):
        for i, (x, y) in enumerate(zip(a, b)):
            if x != y:
                return _first_diff(x, y, f"{path}[{i}]")
        return None
    return None if a == b else f"{path}: {a!r} != {b!r}"


def judge(case):
    files, settings, target = case["files"], case["settings"], case["target"]
    what = f"files {files!r} target {target!r} settings {settings}"
    for rel, css in files.items():
        if osh.has_error(osh.normal(css)):
            raise HarnessError(f"generated sheet does not parse cleanly: {css!r}")
    setup = None
    link = case.get("symlink")  # (link path, target path relative to the link's directory)
    if link:
        def setup(root, link=link):
            lp = os.path.join(root, link[0])
            os.makedirs(os.path.dirname(lp), exist_ok=True)
            os.symlink(link[1], lp)
    run = cli.run_cli(files, target, settings, audit=True, setup=setup)
    if run["exit"] != 0 or run["exception"]:
        raise Violation("cli-failed", f"cm-colors exited {run['exit']} ({run['exception']}); stderr {run['stderr'][-300:]!r}; {what}")
    if "Error processing" in run["stderr"]:
        raise Violation("cli-error-processing-valid-sheet", f"{run['stderr'].strip().splitlines()[0]!r}; {what}")
    before, after = run["before"], run["after"]
    # (i) inputs untouched
    for rel in before:
        if rel not in after:
            raise Violation("input-removed", f"{rel} disappeared; {what}")
        if after[rel] != before[rel]:
            raise Violation("input-modified", f"{rel} changed from {before[rel]} to {after[rel]}; {what}")
    # (ii) created paths
    processed = sorted(files) if not link else [link[0]]
    adjusted_total = run["counts"]["adjusted"]
    expected = {cli.out_name(rel) for rel in processed}
    if adjusted_total > 0:
        expected.add(cli.REPORT)
    created = {rel for rel in after if rel not in before}
    if created != expected:
        raise Violation("created-paths", f"created {sorted(created)}, expected {sorted(expected)}; {what}")
    real = os.path.realpath(run["cwd"])
    for ev in run["events"]:
        kind = ev[0]
        if kind == "open-write":
            p = ev[1]
            rp = os.path.realpath(p if os.path.isabs(str(p)) else os.path.join(real, str(p)))
            relp = os.path.relpath(rp, real)
            if relp not in expected:
                raise Violation("writes-elsewhere", f"opened {p!r} for writing (expected only {sorted(expected)}); {what}")
        else:
            raise Violation("filesystem-side-effect", f"file-system event {ev!r}; {what}")
    # (iii)+(iv) structure preserved
    cards_by_file = {}
    for c in run["cards"]:
        cards_by_file.setdefault(c["file"], []).append(c)
    n_adjusted_rules = 0
    for rel, css in ([(link[0], next(iter(files.values())))] if link else files.items()):
        out = run["texts"][cli.out_name(rel)]
        try:
            out_css = out.decode("utf-8")
        except UnicodeDecodeError as e:
            raise Violation("output-not-utf8", f"{cli.out_name(rel)}: {e}; {what}")
        nf_in, nf_out = osh.normal(css), osh.normal(out_css)
        if osh.has_error(nf_out):
            raise Violation("output-not-valid-css", f"{cli.out_name(rel)} has a parse error: {out_css!r}; {what}")
        coloured = c08.coloured_rules(nf_in)
        cards = cards_by_file.get(os.path.basename(rel), [])
        A = set(c08.ids_from_selectors([c["selector"] for c in cards], coloured))
        n_adjusted_rules += len(A)
        by_in = c08.all_rules_by_id(nf_in)
        var_names = set()
        for rid in A:
            r = by_in.get(rid)
            cd = osh.last_decl(r, "color") if r else None
            vn = osh.var_name_of(cd[2]) if cd else None
            if vn:
                var_names.add(vn[0])
        m_in, m_out = _mask(nf_in, A, var_names), _mask(nf_out, A, var_names)
        if m_in != m_out:
            raise Violation("structure-not-preserved", f"{cli.out_name(rel)} differs from {rel} beyond adjusted colour values: {_first_diff(m_in, m_out)}; input {css!r}; output {out_css!r}; settings {settings}")
    kinds = set()
    for css in files.values():
        for k, name in CARRY_KINDS.items():
            if k in css:
                kinds.add(name)
        if any(ord(ch) > 127 for ch in css):
            kinds.add("non-ascii")
    nt = (str(files), str(settings), target) if (len(kinds) >= 3 and n_adjusted_rules >= 1) else None
    return {"nt": nt, "cls": [f"carry-kinds:{min(len(kinds), 8)}", f"adjusted:{min(n_adjusted_rules, 3)}", f"target:{case['shape']}"],
            "sample": {"files": files, "settings": settings, "target": target, "adjusted": n_adjusted_rules, "carry": sorted(kinds)}}


@st.composite
def strategy(draw):
    knobs = {"shared_vars": False, "carry": True}
    shape = draw(st.sampled_from(["file", "file", "dir", "dot", "dir2", "symlink", "file-named-cm"]))
    s1 = draw(sheets.sheet(knobs=knobs))["css"]
    name1 = draw(st.sampled_from(["s.css", "main.css", "a b.css", "ünï.css", "x_cm_y.css", "theme.min.css"]))
    if draw(st.integers(0, 5)) == 0:
        # a (wrong) @charset rule in a UTF-8 file with non-ASCII text: the tool reads and writes UTF-8 whatever the rule says
        s1 = '@charset "' + draw(st.sampled_from(["ISO-8859-1", "windows-1252", "koi8-r", "shift_jis", "UTF-16"])) + '";\n' + s1 + '\n.caf\u00e9::after { content: "\u00bb \u00fc\u00f1\u00ef \u2192 \u65e5\u672c" } /* \u00e9\u00e8 */\n'
    if shape == "file-named-cm":
        # a single file whose own name ends in _cm.css: the result is still a SIBLING (<name>_cm_cm.css), never the input itself
        nm = draw(st.sampled_from(["theme_cm.css", "a_cm.css", "site/x_cm.css"]))
        files, target = {nm: s1}, nm
    elif shape == "file":
        files, target = {name1: s1}, name1
    elif shape == "symlink":
        # the stylesheet is reached through a symbolic link: the output belongs beside the path that was given
        files, target = {os.path.join("shared", "base.css"): s1}, os.path.join("site", name1)
        return {"files": files, "settings": draw(sheets.cli_settings()), "target": target, "shape": shape,
                "symlink": (os.path.join("site", name1), os.path.join("..", "shared", "base.css"))}
    elif shape == "dot":
        files, target = {name1: s1}, "."
    elif shape == "dir":
        files, target = {os.path.join("site", name1): s1}, "site"
    else:
        s2 = draw(sheets.sheet(knobs=knobs, max_rules=4))["css"]
        files, target = {os.path.join("site", name1): s1, os.path.join("site", "sub dir", "other.css"): s2}, "site"
    return {"files": files, "settings": draw(sheets.cli_settings()), "target": target, "shape": shape}


def env_items(shard, nshards):
    return [{"which": "cli"}] if shard == 0 else []


def env_judge(case):
    """The CLI on a sheet full of non-ASCII text, in two child interpreters (UTF-8 locale vs LC_ALL=C): same files, same bytes."""
    from vlib import envleg

    ref = envleg.run_child("cli", False)
    c = envleg.run_child("cli", True)
    if "__crash__" in ref:
        raise HarnessError(f"environment leg crashed under the UTF-8 locale: {ref['__crash__']}")
    if "__crash__" in c:
        raise Violation("locale-dependent:crash", f"the CLI workload crashes under LC_ALL=C: {c['__crash__'][-300:]}")
    if ref["exit"] != 0 or ref["output"] is None or "Error processing" in ref["stderr"]:
        raise Violation("cli-failed", f"CLI run on the non-ASCII sheet failed under the UTF-8 locale: {ref['stderr']!r}")
    if osh.normal(ref["output"]) == [] or osh.has_error(osh.normal(ref["output"])):
        raise Violation("output-not-valid-css", f"{ref['output']!r}")
    if c["exit"] != 0 or "Error processing" in c["stderr"] or c["output"] is None:
        raise Violation("locale-dependent:error-or-no-output", f"under LC_ALL=C (preferred encoding {c.get('preferred_encoding')}) the same run gives exit {c['exit']}, stderr {c['stderr']!r}, output {'missing' if c['output'] is None else 'present'}")
    if c["files"] != ref["files"] or c["counts"] != ref["counts"] or c["cards"] != ref["cards"]:
        raise Violation("locale-dependent:output-differs", f"files / counts / report differ between locales: {c['files']} vs {ref['files']}; {c['counts']} vs {ref['counts']}")
    return {"nt": ("env", "cli", c.get("preferred_encoding")), "cls": ["c-locale-child"], "sample": {"env": "LC_ALL=C PYTHONUTF8=0 PYTHONCOERCECLOCALE=0", "sheet": envleg.SHEET}}


def subchecks(tier):
    q = tier == "quick"
    from vlib.runner import Enum

    return [Hyp("inputs-untouched-structure-preserved", strategy, judge, examples=1600 if q else 48000),
            Enum("c-locale-fresh-interpreter", judge=env_judge, items=env_items, shards=1)]
